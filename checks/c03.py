"""C03 - immutable values never change: the in-place update optimisation is unobservable.

Persist.tla is the reference semantics (values are mathematical objects) written as a state
machine over ALIASES (named holders of values, each with a holder kind).  TLC enumerates the
histories (base / share / upd / upd2 / reobs actions, every holder-kind assignment) and prints,
per history, the Scheme text of every operation and the observation expected of EVERY alias
after EVERY step; a second family are accumulator loops that keep old versions.

This module only *places* those texts into a program that forces the ownership shape of each
holder kind (global, parameter, local not at last use, local at last use, box, closure capture,
container element, frame captured by a continuation, local of a second native thread reached
through a channel or through the thread's closure), replays the program under JIT on / off and
(for a sample) under the other optimisation switches, and compares emission by emission.
"""
import hashlib
import json
import os
import random
import re

import vlib

PROP = "C03"
WORKERS = 8


# ----------------------------------------------------------------------------- configs

def cfg_variant(cfg, work, subst, suffix):
    """A copy of spec/<cfg> with some CONSTANTS replaced."""
    text = open(os.path.join(vlib.SPEC, cfg)).read()
    for k, v in subst.items():
        text, n = re.subn(rf"(?m)^(\s*{k}\s*=\s*).*$", rf"\g<1>{v}", text)
        if n != 1:
            raise vlib.ToolError(f"constant {k} not found in {cfg}")
    os.makedirs(work, exist_ok=True)
    path = os.path.join(work, cfg.replace(".cfg", f"_{suffix}.cfg"))
    with open(path, "w") as f:
        f.write(text)
    return path


# ----------------------------------------------------------------------------- replay (tolerant reader)

def _run_chunk(cases, workdir, name, env, timeout_ms):
    """vlib's chunk runner (tolerant reader: corrupted string storage becomes a mismatching observation; a process
    death right after a verdict is attributed to that case's teardown)"""
    return vlib._run_replay_chunk(cases, workdir, name, env, timeout_ms, restarts_max=400)


def replay(cases, workdir, env_extra=None, jobs=12, timeout_ms=10000, name="replay"):
    """Same contract as vlib.replay."""
    import time
    from concurrent.futures import ThreadPoolExecutor
    os.makedirs(workdir, exist_ok=True)
    if len({c["id"] for c in cases}) != len(cases):
        raise vlib.ToolError("duplicate case id")
    env = dict(os.environ)
    for k in ("STEEL_JIT", "STEEL_INLINE", "STEEL_INLINE_RECURSIVE", "STEEL_CLOSURE_LIFTING", "STEEL_MODULE_INLINE"):
        env.pop(k, None)
    env.update(env_extra or {})
    if not cases:
        return []
    jobs = max(1, min(jobs, (len(cases) + 19) // 20))
    chunks = [cases[i::jobs] for i in range(jobs)]
    t0 = time.time()
    with ThreadPoolExecutor(max_workers=jobs) as ex:
        futs = [ex.submit(_run_chunk, ch, workdir, f"{name}.{i}", env, timeout_ms) for i, ch in enumerate(chunks)]
        res = []
        for f in futs:
            res.extend(f.result())
    by_id = {v["id"]: v for v in res}
    vlib.log(f"[replay] {name}: {len(cases)} cases in {time.time() - t0:.1f}s, {sum(1 for v in res if not v['pass'])} failing")
    return [by_id[c["id"]] for c in cases]


# ----------------------------------------------------------------------------- alias programs

def th(kind):
    return 1 if kind in ("WL", "WM", "WE") else 0


ACCESS = {
    "G": "pg{j}@@", "P": "p{j}", "L": "x{j}", "M": "x{j}", "K": "x{j}", "S": "s{j}", "B": "(unbox b{j})", "C": "(c{j})",
    "EM": "(PMut@@-v e{j})", "PR": "(pp{j}@@)", "RA": "(car ra{j})", "EK": "(car (hash-keys->list e{j}))",
    "WE": "(list-ref w{j} 1)",
    "EL": "(list-ref e{j} 1)", "EP": "(car e{j})", "EV": "(vector-ref e{j} 0)", "EI": "(vector-ref e{j} 1)",
    "EH": "(hash-ref e{j} 'k)", "ES": "(PHold@@-v e{j})", "WL": "w{j}", "WM": "w{j}",
}
BIND = {
    "L": "(let ([x{j} {X}])", "M": "(let ([x{j} {X}])", "B": "(let ([b{j} (box {X})])",
    "C": "(let ([c{j} (let ([t {X}]) (lambda () t))])",
    "EL": "(let ([e{j} (list 0 {X})])", "EP": "(let ([e{j} (cons {X} 0)])", "EV": "(let ([e{j} (vector {X} 0)])",
    "EI": "(let ([e{j} (immutable-vector 0 {X})])", "EH": "(let ([e{j} (hash 'k {X})])",
    "ES": "(let ([e{j} (PHold@@ {X})])", "EM": "(let ([e{j} (PMut@@ {X})])", "EK": "(let ([e{j} (hash {X} 'v)])",
    "WE": "(let ([w{j} {X}])", "WL": "(let ([w{j} {X}])", "WM": "(let ([w{j} {X}])",
}


def sexp_split(t):
    """Top-level elements of the parenthesised form t."""
    assert t[0] == "(" and t[-1] == ")"
    out, depth, cur, instr = [], 0, "", False
    for ch in t[1:-1]:
        if instr:
            cur += ch
            if ch == '"':
                instr = False
            continue
        if ch == '"':
            instr = True
            cur += ch
        elif ch == "(":
            depth += 1
            cur += ch
        elif ch == ")":
            depth -= 1
            cur += ch
        elif ch == " " and depth == 0:
            if cur:
                out.append(cur)
            cur = ""
        else:
            cur += ch
    if cur:
        out.append(cur)
    return out


class Thread:
    """Straight-line code of one thread: items are texts; an item may leave forms open."""

    def __init__(self):
        self.items = []
        self.closers = []

    def add(self, text, closer=""):
        self.items.append(text)
        if closer:
            self.closers.append(closer)

    def text(self, tail):
        return " ".join(self.items + [tail]) + "".join(reversed(self.closers))


class AliasProgram:
    def __init__(self, c, toplevel=False):
        self.c = c
        self.toplevel = toplevel
        self.als = c["als"]
        self.pre = ["(define pret@@ #f)"]
        self.m = Thread()
        self.w = Thread()
        self.exp = []
        self.lab = []
        self.spawned = False
        self.param = None
        self.kinds = [a["kind"] for a in self.als]
        if c["ty"] == "hash":
            self.pre.append("(define (plt@@ a b) (< (car a) (car b)))")
        if "ES" in self.kinds:
            self.pre.append("(struct PHold@@ (v))")
        if "EM" in self.kinds:
            self.pre.append("(struct PMut@@ (v) #:mutable)")
        if any(th(k) for k in self.kinds):
            self.m.add("(let* ([cmw (channels/new)] [cwm (channels/new)] [txmw (channels-sender cmw)] "
                       "[rxmw (channels-receiver cmw)] [txwm (channels-sender cwm)] [rxwm (channels-receiver cwm)])", ")")

    # -- pieces
    def kind(self, j):
        return self.als[j - 1]["kind"]

    def acc(self, j):
        return ACCESS[self.kind(j)].format(j=j)

    def q(self, j, v):
        return self.als[j - 1]["q"].replace("$v", v)

    def thread(self, t):
        return self.w if t else self.m

    def expect(self, exp, lab):
        self.exp.append(exp)
        self.lab.append(lab)

    def m2w(self, payload="'go", bind=None):
        self.m.add(f"(channel/send txmw {payload})")
        if bind:
            self.w.add(BIND[self.kind(bind)].format(j=bind, X="(channel/recv rxmw)"), ")")
        else:
            self.w.add("(channel/recv rxmw)")

    def w2m(self, payload="'ok", bind=None):
        self.w.add(f"(channel/send txwm {payload})")
        if bind:
            self.bind(0, bind, "(channel/recv rxwm)")
        else:
            self.m.add("(channel/recv rxwm)")

    def spawn(self, capture=None):
        self.spawned = True
        if capture:
            j, X = capture
            self.m.add(f"(let ([wth (let ([t{j} {X}]) (spawn-native-thread (lambda () @WORKER@)))])", ")")
            self.w.add(BIND[self.kind(j)].format(j=j, X=f"t{j}"), ")")
        else:
            self.m.add("(let ([wth (spawn-native-thread (lambda () @WORKER@))])", ")")

    def bind(self, t, j, X):
        kind = self.kind(j)
        T = self.thread(t)
        if kind == "C" and getattr(self, "direct_capture", None):
            T.add(f"(let ([c{j} (lambda () {self.direct_capture})])", ")")
            self.direct_capture = None
            return
        if kind == "G":
            self.pre.append(f"(define pg{j}@@ #f)")
            T.add(f"(set! pg{j}@@ {X})")
        elif kind == "RA":
            # the rest list is built by a variadic helper (an immediately applied variadic lambda inside a let
            # body is miscompiled by Steel - the rest parameter is bound to the bare argument - which is not
            # this property's concern)
            self.pre.append("(define (pra@@ . ra) ra)")
            T.add(f"(let ([ra{j} (pra@@ {X} 0)])", ")")
        elif kind == "S":
            T.add(f"(let ([s{j} #f])", ")")
            T.add(f"(set! s{j} {X})")
        elif kind == "PR":
            self.pre.append(f"(define pp{j}@@ (make-parameter #f))")
            # the value is computed first: Steel's parameterize evaluates the value expression inside the
            # before-thunk of a dynamic-wind, i.e. again on every re-entry of its extent (not this property's concern)
            T.add(f"(let ([t{j} {X}])", ")")
            T.add(f"(parameterize ([pp{j}@@ t{j}])", ")")
        elif kind == "K":
            self.pre.append(f"(define pk{j}@@ #f)")
            T.add(f"(let ([x{j} {X}])", ")")
            T.add(f"(let ([md{j} (call/cc (lambda (k) (set! pk{j}@@ k) 0))])", ")")
            # the observing branch comes first: the straight-line use of x{j} is the textually last one
            T.add(f"(if (not (= md{j} 0)) (begin (emit {self.q(j, f'x{j}')}) (pret@@ 0)) (begin", "))")
        else:
            T.add(BIND[kind].format(j=j, X=X), ")")

    def observe(self, j, lab):
        a = self.als[j - 1]
        T = self.thread(th(a["kind"]))
        if a["kind"] == "K":
            T.add(f"(call/cc (lambda (r) (set! pret@@ r) (pk{j}@@ 1)))")
        else:
            T.add(f"(emit {self.q(j, self.acc(j))})")
        self.expect(a["exp"], lab)

    # -- one action
    def act(self, n, a):
        j = a["j"]
        if a["a"] == "reobs":
            i = a["i"]
            t = th(self.kind(i))
            if t:
                self.m2w()
            if self.kind(i) == "K":
                self.observe(i, f"s{n}:reobs:a{i}:K")
            else:
                q = a["pre"][0]["q"].replace("$v", "o")
                self.thread(t).add(f"(let ([o {self.acc(i)}]) (emit {q}))")
                self.expect(a["pre"][0]["exp"], f"s{n}:reobs:a{i}:{self.kind(i)}")
            if t:
                self.w2m()
            return
        if a["a"] == "base":
            st, X = 0, a["src"]
            if a["kind"] == "P":
                self.param = (j, X)
                return
        else:
            st = th(self.kind(a["i"]))
            src = self.acc(a["i"])
            if a["a"] == "share":
                X = src
                if a["kind"] == "C" and self.kind(a["i"]) in ("L", "M", "P", "S", "K"):
                    # the closure captures the source's OWN variable (not a copy in a fresh let)
                    self.direct_capture = src
            elif a["a"] == "upd2":
                X = a["tpl"].replace("$v", src).replace("$w", self.acc(a["i2"]))
            else:
                via = a["via"]
                if via == "d":
                    X = a["tpl"].replace("$v", src).replace("$a", a["arg"])
                elif via == "f":
                    self.pre.append(f"(define (ph{n}@@ p) {a['tpl'].replace('$v', 'p').replace('$a', a['arg'])})")
                    X = f"(ph{n}@@ {src})"
                elif via == "g":
                    q = a["pre"][0]["q"].replace("$v", "p")
                    self.pre.append(f"(define (ph{n}@@ p) (let ([r {a['tpl'].replace('$v', 'p').replace('$a', a['arg'])}]) "
                                    f"(emit {q}) r))")
                    X = f"(ph{n}@@ {src})"
                elif via == "a":   # (apply prim args): the argument list is observed afterwards
                    parts = sexp_split(a["tpl"])
                    pos = parts[1:].index("$v")
                    args = " ".join(x.replace("$v", src).replace("$a", a["arg"]) for x in parts[1:])
                    q = a["pre"][0]["q"].replace("$v", f"(list-ref pl{n} {pos})")
                    X = f"(let ([pl{n} (list {args})]) (let ([r (apply {parts[0]} pl{n})]) (emit {q}) r))"
                elif via == "m":   # (map (lambda (p) (prim p ...)) lst): the list is observed afterwards
                    q = a["pre"][0]["q"].replace("$v", f"(car pl{n})")
                    body = a["tpl"].replace("$v", "p").replace("$a", a["arg"])
                    X = f"(let ([pl{n} (list {src})]) (let ([r (car (map (lambda (p) {body}) pl{n}))]) (emit {q}) r))"
                else:   # "k": a continuation is captured while the operand is an evaluated temporary
                    self.pre.append(f"(define pk{n}x@@ #f)")
                    self.m.add(f"(let ([pc{n} (box 0)])", ")")
                    X = a["tpl"].replace("$v", src).replace(
                        "$a", f"(call/cc (lambda (kk) (set! pk{n}x@@ kk) {a['alt']}))")
        dt = th(a["kind"])
        if a["kind"] == "WE":     # the value crosses (or stays on) the second thread inside a list
            X = f"(list 0 {X})"
        if st == 1:
            self.m2w()
        if a["a"] == "upd" and a["via"] in ("g", "a", "m"):
            self.expect(a["pre"][0]["exp"], f"s{n}:via-{a['via']}:operand-after-update:a{a['i']}")
        if (st, dt) == (0, 0):
            self.bind(0, j, X)
        elif (st, dt) == (0, 1):
            if a["xfer"] == "capt":
                self.spawn(capture=(j, X))
            else:
                if not self.spawned:
                    self.spawn()
                self.m2w(payload=X, bind=j)
        elif (st, dt) == (1, 1):
            self.bind(1, j, X)
            self.w2m()
        else:
            self.w2m(payload=X, bind=j)
        if a["a"] == "upd" and a["via"] == "k":
            v = self.acc(j)
            q1, q3 = a["pre"][0]["q"].replace("$v", v), a["pre"][2]["q"].replace("$v", v)
            self.m.add(f"(emit (if (< (unbox pc{n}) 2) {q1} {q3}))")
            self.m.add(f"(when (< (unbox pc{n}) 2) (set-box! pc{n} (+ (unbox pc{n}) 1)) "
                       f"(pk{n}x@@ (if (= (unbox pc{n}) 1) {a['alt']} {a['arg']})))")
            self.expect(a["pre"][0]["exp"], f"s{n}:via-k:first-pass:a{j}")
            self.expect(a["pre"][1]["exp"], f"s{n}:via-k:second-pass:a{j}")
            self.expect(a["pre"][2]["exp"], f"s{n}:via-k:third-pass:a{j}")

    def render(self):
        c = self.c
        acts = c["acts"]
        for n, a in enumerate(acts):
            self.act(n, a)
            if n == 0 and a["kind"] == "P":
                pass
            ids = [o["id"] for o in c["obs"][n]]
            live = [j for j in range(1, len(self.als) + 1)
                    if self.als[j - 1]["born"] <= n and (self.als[j - 1]["dead"] == 0 or self.als[j - 1]["dead"] > n)]
            if ids != live:
                raise vlib.ToolError(f"spec/renderer disagree on the live aliases after step {n}: {ids} vs {live}")
            exps = {o["id"]: o["exp"] for o in c["obs"][n]}
            for j in ids:
                if exps[j] != self.als[j - 1]["exp"]:
                    raise vlib.ToolError("spec: the expected observation of an alias changed between steps")
            mine = [j for j in ids if th(self.kind(j)) == 0]
            theirs = [j for j in ids if th(self.kind(j)) == 1]
            for j in mine:
                self.observe(j, f"s{n}:a{j}:{self.kind(j)}")
            if theirs:
                self.m2w()
                for j in theirs:
                    self.observe(j, f"s{n}:a{j}:{self.kind(j)}")
                self.w2m()
        tail = "0"
        if self.spawned:
            n = len(acts) - 1
            wl = [j for j in range(1, len(self.als) + 1) if th(self.kind(j)) and self.als[j - 1]["dead"] == 0]
            if wl:
                j = wl[-1]
                self.m.add(f"(let ([jr (thread-join! wth)]) (emit {self.q(j, 'jr')}))")
                self.expect(self.als[j - 1]["exp"], f"s{n}:join:a{j}:{self.kind(j)}")
                wtail = self.acc(j)
            else:
                self.m.add("(thread-join! wth)")
                wtail = "0"
            body = self.m.text(tail).replace("@WORKER@", self.w.text(wtail))
        else:
            body = self.m.text(tail)
        pre = []
        for p in self.pre:
            if p not in pre:
                pre.append(p)
        if self.toplevel:
            # the same code as ONE top-level expression (no function frame, never compiled by the JIT)
            if self.param:
                j, X = self.param
                body = f"((lambda (p{j}) {body}) {X})"
            else:
                body = f"(let () {body})"
            return " ".join(pre) or "0", body
        if self.param:
            j, X = self.param
            define = f"(define (pmain@@ p{j}) {body})"
            call = f"(pmain@@ {X})"
        else:
            define = f"(define (pmain@@) {body})"
            call = "(pmain@@)"
        return " ".join(pre + [define]), call


def hist_tag(c):
    parts = []
    for a in c["acts"]:
        if a["a"] == "base":
            parts.append(f"base:{a['how']}:{a['kind']}" + (f":{a['xfer']}" if a["xfer"] != "-" else ""))
        elif a["a"] == "share":
            parts.append(f"share:a{a['i']}:{a['kind']}" + (f":{a['xfer']}" if a["xfer"] != "-" else ""))
        elif a["a"] == "upd":
            parts.append(f"upd:a{a['i']}:{a['op']}:{a['via']}:{a['kind']}" + (f":{a['xfer']}" if a["xfer"] != "-" else ""))
        elif a["a"] == "upd2":
            parts.append(f"upd2:a{a['i']}:a{a['i2']}:{a['kind']}")
        else:
            parts.append(f"reobs:a{a['i']}")
    return ">".join(parts)


def alias_case(c, toplevel=False):
    p = AliasProgram(c, toplevel)
    pre, call = p.render()
    steps = [{"src": pre, "class": "ok", "emit": []},
             {"src": call, "class": "ok", "emit": p.exp},
             # a second activation: literals of the constant pool and engine state must be unchanged
             {"src": call, "class": "ok", "emit": p.exp}]
    h = hashlib.sha1(json.dumps([s["src"] for s in steps]).encode()).hexdigest()[:12]
    return {"id": f"{'T' if toplevel else 'A'}-{h}", "fresh": False,
            "tag": f"alias{'-toplevel' if toplevel else ''}|ty={c['ty']}|hist={hist_tag(c)}", "steps": steps,
            "meta": {"labs": p.lab, "fam": "alias", "nacts": len(c["acts"]),
                     "shared": any(a["a"] in ("share", "upd2") or a["via"] in ("g", "a", "m", "k") for a in c["acts"])}}


# ----------------------------------------------------------------------------- loop programs

def loop_case(c):
    n, ev, src = c["n"], c["every"], c["src"]

    def op(v, i="i"):
        return c["tpl"].replace("$v", v).replace("$i", i)
    save = f"(= 0 (modulo (- i 1) {ev}))"
    ns = len(c["saved"])
    st = c["style"]
    pre = []
    if c["ty"] == "hash":
        pre.append("(define (plt@@ a b) (< (car a) (car b)))")
    if st == "nl-op-first":       # acc is used again after the update: the update must copy
        body = (f"(let loop ([i 1] [acc {src}] [saved '()]) (if (> i {n}) (list acc (reverse saved)) "
                f"(loop (+ i 1) {op('acc')} (if {save} (cons acc saved) saved))))")
    elif st == "nl-save-first":   # the update is the last use of acc: in place unless this version was just saved
        body = (f"(let loop ([i 1] [saved '()] [acc {src}]) (if (> i {n}) (list acc (reverse saved)) "
                f"(loop (+ i 1) (if {save} (cons acc saved) saved) {op('acc')})))")
    elif st == "set-local":
        body = (f"(let ([acc {src}] [saved '()]) (let loop ([i 1]) (when (<= i {n}) (when {save} (set! saved (cons acc saved))) "
                f"(set! acc {op('acc')}) (loop (+ i 1)))) (list acc (reverse saved)))")
    elif st == "set-global":
        pre += ["(define pgacc@@ #f)", "(define pgsaved@@ '())"]
        body = (f"(begin (set! pgacc@@ {src}) (set! pgsaved@@ '()) (let loop ([i 1]) (when (<= i {n}) "
                f"(when {save} (set! pgsaved@@ (cons pgacc@@ pgsaved@@))) (set! pgacc@@ {op('pgacc@@')}) (loop (+ i 1)))) "
                f"(list pgacc@@ (reverse pgsaved@@)))")
    elif st == "foldl":
        body = (f"(let ([r (foldl (lambda (i st) (list {op('(car st)')} (if {save} (cons (car st) (cadr st)) (cadr st)))) "
                f"(list {src} '()) (range 1 {n + 1}))]) (list (car r) (reverse (cadr r))))")
    elif st == "vec":             # versions kept in the slots of a mutable vector
        body = (f"(let ([sv (make-vector {ns} #f)]) (let loop ([i 1] [acc {src}]) (if (> i {n}) (list acc (vector->list sv)) "
                f"(begin (when {save} (vector-set! sv (quotient (- i 1) {ev}) acc)) (loop (+ i 1) {op('acc')})))))")
    elif st == "hashv":           # versions kept as values of a persistent hash that is itself updated at its last use
        body = (f"(let loop ([i 1] [saved (hash)] [acc {src}]) (if (> i {n}) (list acc saved) "
                f"(loop (+ i 1) (if {save} (hash-insert saved (- i 1) acc) saved) {op('acc')})))")
    elif st == "box":
        body = (f"(let ([b (box {src})] [saved (box '())]) (let loop ([i 1]) (when (<= i {n}) "
                f"(when {save} (set-box! saved (cons (unbox b) (unbox saved)))) (set-box! b {op('(unbox b)')}) (loop (+ i 1)))) "
                f"(list (unbox b) (reverse (unbox saved))))")
    elif st == "thread":          # the loop runs on a second thread on a value built by the engine thread
        body = (f"(let ([b0 {src}]) (let ([r (thread-join! (spawn-native-thread (lambda () "
                f"(let loop ([i 1] [saved (list b0)] [acc b0]) (if (> i {n}) (list acc (reverse saved)) "
                f"(loop (+ i 1) (if {save} (cons acc saved) saved) {op('acc')}))))))]) "
                f"(list (car r) (cdr (cadr r)) b0)))")
    else:
        raise vlib.ToolError(f"unknown loop style {st}")
    def ref(x):
        return f"(hash-ref (cadr r) {c['saved'][x]['i']})" if st == "hashv" else f"(list-ref (cadr r) {x})"
    obs, exp, lab = [], [], []

    def observe_versions(phase):
        for x, s in enumerate(c["saved"]):
            obs.append(f"(emit {s['q'].replace('$v', ref(x))})")
            exp.append(s["exp"])
            lab.append(f"loop:{phase}:saved-version:{s['i']}")
        obs.append(f"(emit {c['final']['q'].replace('$v', '(car r)')})")
        exp.append(c["final"]["exp"])
        lab.append(f"loop:{phase}:final")
        if st == "thread":            # the sender's original after the other thread's updates
            obs.append(f"(emit {c['saved'][0]['q'].replace('$v', '(caddr r)')})")
            exp.append(c["saved"][0]["exp"])
            lab.append(f"loop:{phase}:sender-original")
    observe_versions("after-loop")
    # every version is updated once more (not at its last use: the saved list still holds it)
    forks = "'()"
    for x in reversed(range(len(c["forks"]))):
        forks = f"(cons {op(ref(x), str(c['forks'][x]['i']))} {forks})"
    obs.append(f"(set! pforks@@ (pfork@@ r))")
    observe_versions("after-forks")
    for x, f in enumerate(c["forks"]):
        obs.append(f"(emit {f['q'].replace('$v', f'(list-ref (cdr pforks@@) {x})')})")
        exp.append(f["exp"])
        lab.append(f"loop:fork-of-version:{c['saved'][x]['i']}")
    obs.append(f"(emit {c['forkfinal']['q'].replace('$v', '(car pforks@@)')})")
    exp.append(c["forkfinal"]["exp"])
    lab.append("loop:fork-of-final")
    pre += ["(define pforks@@ #f)", f"(define (pfork@@ r) (cons {op('(car r)', '2000')} {forks}))"]
    define = " ".join(pre + [f"(define (ploop@@) {body})"])
    call = f"(let ([r (ploop@@)]) {' '.join(obs)})"
    steps = [{"src": define, "class": "ok", "emit": []}, {"src": call, "class": "ok", "emit": exp},
             {"src": call, "class": "ok", "emit": exp}]
    h = hashlib.sha1(json.dumps([s["src"] for s in steps]).encode()).hexdigest()[:12]
    return {"id": f"L-{h}", "fresh": False,
            "tag": f"loop|ty={c['ty']}|prog={c['prog']}|style={st}|n={n}|every={ev}", "steps": steps,
            "meta": {"labs": lab, "fam": "loop", "nacts": n, "shared": True}}


# ----------------------------------------------------------------------------- sweep over all builtins

SWEEP_SKIP = re.compile(
    r"^#%|^##|^%|exit|quit|abort|panic|file|director|path|process|command|stdin|stdout|stderr|read|sleep|thread|channel|"
    r"tcp|http|port|open|close|write|display|print|require|load|eval|emit|opaque|error|assert|breakpoint|inspect|will|"
    r"gc|memory|lock|mutex|spawn|join|recv|send|wait|time|duration|instant|env|current-|poll|future|async|await|dylib|ffi|"
    r"call/cc|call-with|dynamic-wind|continuation|interrupt|engine|expand|syntax|module|stream|block|flush|command-line|"
    r"random|make-|iota|range|repeat|Engine|kill|run!|glob|which|receivers|tls|debug|test-mode|home-location|"
    r"platform|target-arch|for-each|even-rec|odd-rec|loop")


def builtin_names():
    """Every primitive name registered by the engine's Rust sources (so that a newly added primitive is swept too)."""
    import glob
    names = set()
    root = "/repo/crates/steel-core/src"
    for path in glob.glob(root + "/**/*.rs", recursive=True):
        if "/tests/" in path:
            continue
        try:
            text = open(path, errors="replace").read()
        except OSError:
            continue
        names.update(re.findall(r'(?:name|alias)\s*=\s*"([^"\s]+)"', text))
        names.update(re.findall(r'register_(?:fn|value|native_fn)\(\s*"([^"\s]+)"', text))
    # functions of the Scheme prelude (built on the primitives; the compiler treats calls to them differently)
    for path in glob.glob(root + "/scheme/**/*.scm", recursive=True):
        text = open(path, errors="replace").read()
        names.update(re.findall(r"\(define\s+\(([^\s()]+)", text))
    return sorted(n for n in names if not SWEEP_SKIP.search(n) and not re.search(r"[()\[\]{}'`,;|\\]", n))


def existing_names(names, work):
    """Keep the names that are bound to something in a fresh engine."""
    case = {"id": "sweep-names", "fresh": True, "tag": "", "steps": [{"src": n, "class": "any"} for n in names]}
    v = replay([case], work, env_extra=ENVS["nojit"], jobs=1, timeout_ms=20000, name="sweep_names")[0]
    got = v.get("got") or []
    return [n for n, g in zip(names, got) if g["class"] == "ok" and (g.get("val") or "").startswith("#<")]


def sweep_case(c, prim):
    q = c["q"]
    shape = c["shape"]
    pre0 = ["(define pg@@ #f)"]
    if c["ty"] == "hash":
        pre0.append("(define (plt@@ a b) (< (car a) (car b)))")
    hold = {"LG": "x", "MG": "x", "ME": "(list 0 x)", "MC": "(let ([t x]) (lambda () t))"}[shape]
    obs = {"LG": "pg@@", "MG": "pg@@", "ME": "(list-ref pg@@ 1)", "MC": "(pg@@)"}[shape]
    pre0.append(f"(let ([x {c['src']}]) (set! pg@@ {hold}))")
    defs, steps, labs = [], [], []
    for k, pat in enumerate(c["pats"]):
        call = pat.replace("$p", prim).replace("$v", "x")
        if shape == "LG":
            body = f"(let ([x {c['src']}]) (set! pg@@ {hold}) (let ([r {call}]) (emit {q.replace('$v', 'x')}) r))"
        else:
            body = f"(let ([x {c['src']}]) (set! pg@@ {hold}) {call})"
        defs.append(f"(define (psw{k}@@) {body})")
    steps.append({"src": " ".join(pre0), "class": "ok", "emit": []})
    steps.append({"src": " ".join(defs), "class": "any"})
    for k, pat in enumerate(c["pats"]):
        steps.append({"src": f"(psw{k}@@)", "class": "any"})
        steps.append({"src": f"(emit {q.replace('$v', obs)})", "class": "ok", "emit": [c["exp"]]})
        labs.append(pat)
    h = hashlib.sha1(json.dumps([s["src"] for s in steps]).encode()).hexdigest()[:12]
    return {"id": f"S-{h}", "fresh": False, "tag": f"sweep|ty={c['ty']}|how={c['how']}|shape={shape}|prim={prim}",
            "steps": steps, "meta": {"labs": labs, "fam": "sweep", "nacts": 1, "shared": True, "prim": prim}}


def sweep_failure(case, v):
    """None (agrees), "inconclusive" (the builtin killed the process / panicked: nothing can be observed), or
    (tag, why)."""
    if v["pass"]:
        return None
    got = v.get("got") or []
    if any(re.match(r"hang|crash|panic", g["class"]) for g in got) or len(got) < len(case["steps"]):
        return "inconclusive"
    for si, (st, g) in enumerate(zip(case["steps"], got)):
        if st["class"] == "ok" and si >= 2:
            pat = case["meta"]["labs"][(si - 3) // 2]
            call = pat.replace("$p", case["meta"]["prim"])
            if g["class"] != "ok":
                return (f"{case['tag']}|at={call}|sym={g['class']}",
                        f"after {call}: the holder's value cannot be observed any more: {g['class']}: {g.get('msg')}")
            if g.get("emit") != st["emit"]:
                return (f"{case['tag']}|at={call}|sym=wrong-value",
                        f"after {call}: expected {st['emit']} got {g.get('emit')}")
    return (f"{case['tag']}|at=?|sym=?", v.get("why", "?"))


def to_case(c):
    return alias_case(c) if c["fam"] == "alias" else loop_case(c)


# ----------------------------------------------------------------------------- judging

def strip(case):
    return {k: v for k, v in case.items() if k != "meta"}


def failure(case, v):
    """None if the case agrees with the model, else (tag, why) for the first disagreement."""
    if v["pass"]:
        return None
    labs = case["meta"]["labs"]
    got = v.get("got") or []
    for si, st in enumerate(case["steps"]):
        if si >= len(got):
            return (f"{case['tag']}|at=step{si}|sym=died", f"step {si} not reached: {v.get('why')}")
        g = got[si]
        cls = re.sub(r"\(rc=.*\)", "", g["class"])
        exp = st["emit"]
        emits = g.get("emit") or []
        for i, e in enumerate(exp):
            if i >= len(emits):
                break
            if emits[i] != e:
                return (f"{case['tag']}|at=call{si}:{labs[i]}|sym=wrong-value",
                        f"emit[{i}] ({labs[i]}, activation {si}): expected [{e}] got [{emits[i]}]")
        if cls != "ok" or len(emits) != len(exp):
            at = labs[len(emits)] if si > 0 and len(emits) < len(labs) else "end"
            return (f"{case['tag']}|at=call{si}:{at}|sym={cls}",
                    f"activation {si} stopped before observation {len(emits)} ({at}): class {g['class']}: {g.get('msg')}")
    return (f"{case['tag']}|at=?|sym=?", v.get("why", "?"))


def nontrivial(case):
    """Non-trivial = the history keeps a second reference to some object alive across an update
    (share / binary update / observed-after-update helper / continuation re-entry), or is a loop
    (every saved version is such a reference)."""
    return case["meta"]["shared"]


ENVS = {
    "jit": {},
    "nojit": {"STEEL_JIT": "false"},
    "inline": {"STEEL_INLINE": "1", "STEEL_INLINE_RECURSIVE": "1", "STEEL_MODULE_INLINE": "1"},
    "nolift": {"STEEL_CLOSURE_LIFTING": "false"},
    "inline-nojit": {"STEEL_INLINE": "1", "STEEL_INLINE_RECURSIVE": "1", "STEEL_MODULE_INLINE": "1",
                     "STEEL_CLOSURE_LIFTING": "false", "STEEL_JIT": "false"},
}


def retry_alone(c, env_name, work):
    """A case whose process hung or died in a batch, before anything contradicting the model was observed, is run
    again alone on a fresh engine.  The engine's thread protocol has known rare hangs (C15 / C16 findings: a
    compile / define that stops the world right after another case's native thread has exited); such a hang says
    nothing about persistence.  Returns the verdict of the rerun."""
    k = dict(strip(c), id=c["id"] + "-alone", fresh=True)
    return replay([k], work, env_extra=ENVS[env_name], jobs=1, timeout_ms=20000, name=f"alone_{env_name}")[0]


def judge(r, cases, verdicts, env_name, stats, work=None):
    reported = 0
    for c, v in zip(cases, verdicts):
        bad = sweep_failure(c, v) if c["meta"]["fam"] == "sweep" else failure(c, v)
        if bad not in (None, "inconclusive") and work and re.search(r"\|sym=(hang|crash|died)", bad[0]):
            v2 = retry_alone(c, env_name, work)
            bad2 = failure(c, v2)
            if bad2 is None:
                stats["transient_hangs"].append(f"{c['id']} [{env_name}] {bad[0]}")
                bad = None
            else:
                bad = bad2
        stats["evaluations"][env_name] = stats["evaluations"].get(env_name, 0) + 1
        if c["meta"]["fam"] == "sweep":
            got = v.get("got") or []
            if any(g["class"] == "ok" for si, g in enumerate(got) if si >= 2 and si % 2 == 0):
                stats["sweep_called_ok"].add(c["meta"]["prim"])
        if bad == "inconclusive":
            # the builtin under sweep killed the process or panicked (robustness, C07): nothing can be observed
            stats["sweep_inconclusive"][c["meta"]["prim"]] = stats["sweep_inconclusive"].get(c["meta"]["prim"], 0) + 1
            continue
        account(r, c, bad is None, nontrivial(c))
        if bad is None:
            c["_passed"] = True
            continue
        tag, why = bad
        tag += f"|env={env_name}"
        stats["failing"] += 1
        g = stats["groups"].setdefault(re.sub(r"\|hist=[^|]*", "", tag), [0, c["steps"][0]["src"] + " ;; " + c["steps"][1]["src"], why, tag])
        g[0] += 1
        mc = dict(strip(c), tag=tag, env=ENVS[env_name])
        mv = {"pass": False, "why": why}
        f = vlib.match_finding(PROP, mc, mv, r.findings)
        if f:
            r.known.setdefault(f["key"], f["what"])
            stats["by_finding"][f["key"]] = stats["by_finding"].get(f["key"], 0) + 1
        else:
            reported += 1
            if reported <= 25:
                path = r.write_replay(dict(mc, id=f"{c['id']}-{env_name}"), mv)
                with open(path) as fh:
                    obj = json.load(fh)
                obj["env"] = ENVS[env_name]
                with open(path, "w") as fh:
                    json.dump(obj, fh, indent=1)
                r.violations.append((f"case {c['id']} [{env_name}] {tag}: {why}", path))
            else:
                stats["unreported_violations"] += 1


def account(r, case, passed, nontriv):
    r.cov["evaluations"] += 1
    if passed:
        r.cov["traces_validated_against_impl"] += 1
    if nontriv:
        h = hashlib.sha1(json.dumps(case.get("steps"), sort_keys=True).encode()).hexdigest()
        r._nontrivial.add(h)
    r.cov["distinct_nontrivial"] = len(r._nontrivial)


# ----------------------------------------------------------------------------- driver

def selftest(r, cases, work):
    """Mutant oracle: corrupt one expected observation of a passing case whose history shares an
    object; the replayer and this module's judge must report it, and no known finding may absorb it."""
    for c in cases:
        if c.get("_passed") and c["meta"]["shared"] and c["steps"][1]["emit"]:
            m = json.loads(json.dumps({k: v for k, v in c.items() if k != "_passed"}))
            m["id"] = "SELFTEST-" + c["id"]
            k = len(m["steps"][2]["emit"]) - 1
            m["steps"][2]["emit"][k] = m["steps"][2]["emit"][k].replace("#true)", "#false)")
            v = replay([strip(m)], work, jobs=1, name="selftest")[0]
            bad = failure(m, v)
            if v["pass"] or bad is None or "call2" not in bad[0] or vlib.match_finding(
                    PROP, dict(strip(m), tag=bad[0]), {"why": bad[1]}, r.findings):
                raise vlib.ToolError("self-test: a wrong expected observation was not reported")
            return
    raise vlib.ToolError("self-test: no passing case with a shared object to mutate")


ALLK = ["G", "L", "M", "B", "C", "EL", "EP", "EV", "EI", "EH", "EK", "ES", "EM", "S", "PR", "RA", "K", "WL", "WM", "WE"]


def kindset(ks):
    return "{" + ", ".join(f'"{k}"' for k in ks) + "}"


def deep_subst(seed, n, keep):
    """The deep configuration explores, per run, a seeded SUBSET of the holder kinds for the aliases created by
    the actions (all kinds for the first base): over the seeds / runs every kind is covered."""
    rnd = random.Random(seed * 7919 + n)
    k1 = rnd.sample(ALLK, 8)
    kr = ["L", "M"] + rnd.sample([k for k in ALLK if k not in ("L", "M")], 4)
    return dict(keep, KINDS1=kindset(k1), KINDSR=kindset(kr))


def plan(tier, seed):
    """(name, cfg, constant overrides); KEEP* are per-mille of the choices kept by the seeded thinning."""
    if tier == "quick":
        return [
            ("loop", "loop", {"LOOPN": "{6, 70}", "LOOPEVERY": "{5, 33}"}),
            ("deep", "deep", deep_subst(seed, 0, {"KEEP1": 60, "KEEP2": 40, "KEEPR": 22})),
            ("kinds", "kinds", {"KEEP1": 130}),
            ("pairs", "pairs", {"KEEP2": 45}),
            ("bin", "bin", {"KEEP1": 500, "KEEP2": 150, "KEEPR": 80}),
            ("threads", "threads", {"KEEP1": 250, "KEEP2": 100, "KEEPR": 40}),
            ("big", "big", {"KEEP1": 200, "KEEP2": 80, "KEEPR": 30}),
            ("sweep", "sweep", {}),
        ]
    return [
        ("loop", "loop", {"LOOPN": "{5, 40, 70}"}),
        ("deep1", "deep", deep_subst(seed, 1, {"KEEP1": 60, "KEEP2": 40, "KEEPR": 22})),
        ("kinds", "kinds", {"KEEP1": 420}),       # KEEP1 = 1000 is the exhaustive product (2.6e5 programs)
        ("deep2", "deep", deep_subst(seed, 2, {"KEEP1": 60, "KEEP2": 40, "KEEPR": 22})),
        ("pairs", "pairs", {"KEEP2": 220}),       # KEEP2 = 1000: 7e5 programs
        ("deep3", "deep", deep_subst(seed, 3, {"KEEP1": 60, "KEEP2": 40, "KEEPR": 22})),
        ("bin", "bin", {"KEEP1": 1000, "KEEP2": 200, "KEEPR": 100}),
        ("threads", "threads", {"KEEP1": 300, "KEEP2": 150, "KEEPR": 60}),
        ("big", "big", {"KEEP1": 300, "KEEP2": 100, "KEEPR": 40}),
        ("sweep", "sweep", {}),
    ]


MAIN_ENVS = ["jit", "nojit"]
SAMPLE_ENVS = ["inline", "nolift", "inline-nojit"]
SAMPLE_SIZE = {"quick": 450, "thorough": 4000}
SWEEP_NAMES = {"quick": 24, "thorough": 100000}     # how many builtins (seeded choice) are swept


def tlc_producer(tier, seed, work, q):
    """Runs the TLC configurations one after the other (while the main thread replays the previous one)."""
    try:
        for name, cfgname, sub in plan(tier, seed):
            if os.environ.get("C03_ONLY") and name not in os.environ["C03_ONLY"].split(","):
                continue
            cfg = cfg_variant(f"MC_Persist_{cfgname}.cfg", work, dict(sub, SEED=seed), f"{name}_{tier}_s{seed}")
            res = vlib.run_tlc("Persist", cfg, os.path.join(work, "tlc_" + name), workers=WORKERS, timeout=900)
            q.put((name, res))
        q.put((None, None))
    except BaseException as e:  # noqa
        q.put((None, e))


def sharing_selftest(work):
    """Are the aliases of the rendered programs REAL aliases?  For every engine-thread holder kind X, both as the
    holder of the base and as the holder of a second reference, the value is replaced by a MUTABLE vector and the
    update by vector-set!: the expectations (computed for immutable values) must then FAIL exactly at the holder that
    shares the object - otherwise the rendering of X copies the value and every verdict about X would be vacuous.
    (Values cross threads by reference, mutable vectors included, so the second-thread kinds are covered too.)"""
    q = "(list $v (vector-length $v) (equal? $v (vector {})))"

    def al(kind, born, dead, elems):
        return {"kind": kind, "born": born, "dead": dead, "q": q.format(elems), "exp": f"(#({elems}) 3 #true)"}

    def act(a, i, j, kind, **kw):
        d = {"a": a, "i": i, "i2": 0, "j": j, "kind": kind, "via": "-", "xfer": "-", "src": "", "how": "", "tpl": "",
             "arg": "", "alt": "", "op": "-", "pre": []}
        d.update(kw)
        return d
    cases, want = [], []
    kinds = [(k, "-") for k in ALLK + ["P"] if th(k) == 0 and k != "M"] + [("WL", "chan"), ("WL", "capt"), ("WE", "chan"),
                                                                            ("WE", "capt")]
    for x, xfer in kinds:
        for role in ("base", "second"):
            if role == "second" and x == "P":
                continue
            k1, k2 = (x, "L") if role == "base" else ("L", x)
            upd_through = 2 if role == "base" else 1      # the update goes through the OTHER alias
            if SINGLE_USE(k2 if upd_through == 2 else k1):
                continue
            als = [al(k1, 0, 0, "1 2 3"), al(k2, 1, 0, "1 2 3"), al("L", 2, 0, "777 2 3")]
            acts = [act("base", 0, 1, k1, src="(vector 1 2 3)", how="fresh", xfer=xfer if role == "base" else "-"),
                    act("share", 1, 2, k2, xfer=("chan" if xfer != "-" else "-") if role == "base" else xfer),
                    act("upd", upd_through, 3, "L", via="d", tpl="(begin (vector-set! $v 0 777) $v)", op="mutant:set!")]
            obs = [[{"id": 1, "exp": als[0]["exp"]}],
                   [{"id": 1, "exp": als[0]["exp"]}, {"id": 2, "exp": als[1]["exp"]}],
                   [{"id": 1, "exp": als[0]["exp"]}, {"id": 2, "exp": als[1]["exp"]}, {"id": 3, "exp": als[2]["exp"]}]]
            c = alias_case({"fam": "alias", "ty": "ivec", "acts": acts, "als": als, "obs": obs})
            c["id"] = f"SHARING-{x}-{xfer}-{role}"
            cases.append(c)
            want.append(f"s2:a{1 if role == 'base' else 2}:{x}")
    verdicts = replay([strip(c) for c in cases], work, env_extra=ENVS["nojit"], jobs=4, timeout_ms=10000,
                           name="sharing_selftest")
    for c, v, w in zip(cases, verdicts, want):
        got = v["got"][1]["emit"] if len(v.get("got") or []) > 1 else []
        exp = c["steps"][1]["emit"]
        wrong = [lab for lab, e, g in zip(c["meta"]["labs"], exp, got) if e != g]
        if len(got) != len(exp) or w not in wrong:
            raise vlib.ToolError(f"self-test: the holder kind in {c['id']} does not share the object with the updated "
                                 f"alias (mismatching observations: {wrong}, wanted {w}; class {v['got'][-1]['class'] if v.get('got') else '?'})")
    return len(cases)


def SINGLE_USE(kind):
    return kind in ("M", "WM", "K")


def sample_and_selftest(r, tier, rnd, pool, seen, stats, work):
    picked = rnd.sample(pool, min(len(pool), SAMPLE_SIZE[tier]))
    sample = [c for _, c in picked]
    for env in SAMPLE_ENVS:
        verdicts = replay([strip(c) for c in sample], work, env_extra=ENVS[env], jobs=12, timeout_ms=10000,
                               name=f"sample_{env}")
        judge(r, sample, verdicts, env, stats, work)
    # the same histories as ONE top-level expression instead of a function activation
    top = []
    for raw, _ in picked:
        if raw["fam"] == "alias":
            k = alias_case(raw, toplevel=True)
            if k["id"] not in seen:
                seen.add(k["id"])
                top.append(k)
    stats["cases"]["toplevel"] = len(top)
    for env in MAIN_ENVS:
        verdicts = replay([strip(c) for c in top], work, env_extra=ENVS[env], jobs=12, timeout_ms=10000,
                               name=f"toplevel_{env}")
        judge(r, top, verdicts, env, stats, work)
    selftest(r, sample, work)


def run(tier, seed):
    import queue
    import threading
    work = os.path.join(vlib.WORK, PROP)
    r = vlib.Result(PROP, tier, seed)
    stats = {"evaluations": {}, "failing": 0, "by_finding": {}, "unreported_violations": 0, "groups": {},
             "cases": {}, "observations": 0, "sweep_inconclusive": {}, "sweep_builtins": 0, "transient_hangs": [], "sweep_called_ok": set()}
    q = queue.Queue(maxsize=2)
    threading.Thread(target=tlc_producer, args=(tier, seed, work, q), daemon=True).start()
    rnd = random.Random(seed)
    seen = set()
    pool = []          # (raw, case) candidates for the switch sample, the top-level rendering and the self-test
    samples = []
    while True:
        name, res = q.get()
        if name is None:
            if res is not None:
                raise res
            break
        r.add_tlc(res)
        cases, raws = [], []
        if name == "sweep":
            names = existing_names(builtin_names(), work)
            if len(names) < 100:
                raise vlib.ToolError("sweep: the list of builtins could not be harvested")
            names = sorted(rnd.sample(names, min(len(names), SWEEP_NAMES[tier])))
            stats["sweep_builtins"] = len(names)
            expanded = [(c, sweep_case(c, p)) for c in sorted(res["cases"], key=lambda c: json.dumps(c, sort_keys=True))
                        for p in names]
        else:
            expanded = [(c, to_case(c)) for c in res["cases"]]
        for c, k in sorted(expanded, key=lambda ck: ck[1]["id"]):
            if k["id"] not in seen:
                seen.add(k["id"])
                cases.append(k)
                raws.append(c)
        del expanded
        res["cases"] = None
        stats["cases"][name] = len(cases)
        stats["observations"] += sum(sum(len(st.get("emit") or []) for st in c["steps"]) for c in cases)
        for env in MAIN_ENVS:
            sub = cases
            if name == "sweep" and env == "jit":
                # with the JIT on, an error raised by a non-tail call inside a compiled function can abort the process
                # (inconclusive for this property, and expensive): half of the shapes only
                sub = [c for c in cases if "|shape=MG|" in c["tag"] or "|shape=LG|" in c["tag"]]
            verdicts = replay([strip(c) for c in sub], work, env_extra=ENVS[env], jobs=12,
                                   timeout_ms=4000 if name == "sweep" else 10000, name=f"{name}_{env}")
            judge(r, sub, verdicts, env, stats, work)
        if name == "sweep":
            continue
        idx = rnd.sample(range(len(cases)), min(len(cases), SAMPLE_SIZE[tier] // 3 + 20))
        pool += [(raws[i], cases[i]) for i in idx]
        for i in idx[:2]:
            c = cases[i]
            if c.get("_passed") and len(samples) < 8:
                samples.append({"id": c["id"], "tag": c["tag"], "define": c["steps"][0]["src"][:1500],
                                "call": c["steps"][1]["src"][:300], "emit": c["steps"][1]["emit"][:8]})
        del raws
    if not pool and not os.environ.get("C03_ONLY"):
        raise vlib.ToolError("no case was generated")
    if pool:
        sample_and_selftest(r, tier, rnd, pool, seen, stats, work)
    stats["sharing_selftest_cases"] = sharing_selftest(work)
    r.cov["samples"] = samples[:8]
    r.cov["rule"] = ("Persist.tla: histories of base / share / upd / upd2 / reobs actions over aliases with a holder kind each "
                     "(kinds: depth 1, every kind x every kind x every operation x every via; pairs: any holder + a moved second "
                     "reference that is updated; bin: binary updates of two aliases; threads: both directions through channels / "
                     "thread closures; big: 70-element values; deep: <= 5 actions over two bases, seeded sparse sub-tree) and "
                     "accumulator loops that keep and later fork versions; every alias is observed after every step, the function "
                     "under test is activated twice; every case is replayed with the JIT on and off, a sample under the inlining / "
                     "closure-lifting switches and as a top-level expression.  distinct_nontrivial = distinct programs whose "
                     "history keeps a second reference to an object alive across an update of it (share, binary update of two "
                     "aliases, helper / apply / map that observes its operand after the update, continuation re-entry) or that "
                     "are loops keeping old versions.")
    r.cov["exhaustive"] = False
    r.assumptions.append("a case whose process hangs or dies in a batch before any observation disagrees is re-run alone on a "
                         "fresh engine; if it then agrees it is counted as a transient hang of the engine's thread protocol "
                         "(known C15 / C16 findings), listed in notes.transient_hangs, not as a persistence violation")
    r.assumptions.append("the in-place decision itself is not observed (it is unobservable by the property's own statement); "
                         "hash maps / sets are observed through sorted entries, lookups, sizes and equal? against a fresh copy")
    stats["sweep_called_ok"] = len(stats["sweep_called_ok"])     # builtins with >= 1 call that returned normally
    summary = {k: v for k, v in stats.items() if k != "groups"}
    r.notes.append(summary)
    vlib.log(json.dumps(summary))
    if os.environ.get("C03_DEBUG"):
        with open(os.path.join(work, "groups.json"), "w") as f:
            json.dump(stats["groups"], f, indent=1)
    return r.finish()


def replay_file(path):
    """Re-run one recorded failing case (./check C03 --replay <path>) under the recorded switches."""
    with open(path) as f:
        obj = json.load(f)
    case = {k: v for k, v in obj["case"].items() if k in ("id", "fresh", "tag", "steps")}
    v = replay([case], os.path.join(vlib.WORK, PROP, "replay1"), env_extra=obj.get("env") or obj["case"].get("env"),
               jobs=1, name="replay1")[0]
    print(json.dumps(v, indent=1))
    if not v["pass"]:
        print(f"VIOLATION property={PROP} replay={path}")
        return 1
    return 0
