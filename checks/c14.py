"""C14 - modules expose exactly what they provide and are instantiated once (Modules.tla).

TLC enumerates (exhaustive slices) and samples (seeded simulation) module graphs x visibility
assignments x require modifiers x engine histories, and computes for every step the expected
class and emitted values.  This module materialises the module files of each case under
/verif/work/C14/files/<case-id>/ and replays the history on a fresh engine, with
STEEL_MODULE_INLINE unset and =1, and a sample with the JIT off.
"""
import hashlib
import json
import os
import random
import shutil

import vlib

PROP = "C14"
FILES = os.path.join(vlib.WORK, PROP, "files")

ALL_MODS = ('{"plain", "pre", "only_a", "only_b", "only_h", "only_ab", "only_ah", "only_bh", "ren", "ren_b", '
            '"pre_only_a", "pre_only_bh", "pre_ren", "rev_a", "rev_bh", "rev_ren"}')


def case_id(c, prefix):
    h = hashlib.sha1(json.dumps([c["mods"], [s["src"] for s in c["steps"]]], sort_keys=True).encode()).hexdigest()[:14]
    return f"{prefix}-{h}"


# modifier id -> (all, sel, ren, pre, rev), as in Modules.tla ModCat (used for TAGS only: the
# expectations come from the spec)
MODCAT = {
    "plain": (True, (), False, False, False), "pre": (True, (), False, True, False),
    "only_a": (False, ("va",), False, False, False), "only_b": (False, ("vb",), False, False, False),
    "only_h": (False, ("helper",), False, False, False), "only_ab": (False, ("va", "vb"), False, False, False),
    "only_ah": (False, ("va", "helper"), False, False, False), "only_bh": (False, ("vb", "helper"), False, False, False),
    "ren": (False, ("va",), True, False, False), "ren_b": (False, ("va", "vb"), True, False, False),
    "pre_only_a": (False, ("va",), False, True, False), "pre_only_bh": (False, ("vb", "helper"), False, True, False),
    "pre_ren": (False, ("va",), True, True, False), "rev_a": (False, ("va",), False, True, True),
    "rev_bh": (False, ("vb", "helper"), False, True, True), "rev_ren": (False, ("va",), True, True, True),
}
NAMES = ("helper", "va", "vb")


def local_name(mid, n):
    _all, _sel, ren, pre, rev = MODCAT[mid]
    rn = ren and n == "va"
    if rev:
        return "vz" if rn else "p." + n
    base = "vz" if rn else n
    return "p." + base if pre else base


def closure(mreqs, roots):
    seen = []

    def visit(i):
        if i in seen:
            return
        for r in mreqs[i - 1]:
            visit(r["m"])
        seen.append(i)
    for r in roots:
        visit(r)
    return seen


def features(m):
    """Structural features of a case that known findings are keyed on (tags only)."""
    vis = [dict(zip(NAMES, vs)) for vs in m["vis"]]
    # leak: a MODULE imports a contract/out name of another module under a different local name
    leak = set()
    for i, rs in enumerate(m["mreqs"]):
        for r in rs:
            al, sel, _ren, _pre, _rev = MODCAT[r["mod"]]
            for n in NAMES:
                if vis[r["m"] - 1][n] == "ctr" and (al or n in sel) and local_name(r["mod"], n) != n:
                    leak.add(local_name(r["mod"], n))
    # lost: a module that provides nothing is in the require closure of a unit that fails to BUILD
    # before the module was ever instantiated
    # skipped: a module of a unit that was abandoned (a module body before it raised) before its body ran
    inst, lost, skipped, broken = set(), set(), set(), False
    for u in m["units"]:
        clo = closure(m["mreqs"], [s["m"] for s in u["specs"]])
        nobuild = u["fail"] == "free" or (m["errm"]["kind"] == "compile" and m["errm"]["m"] in clo)
        new = [i for i in clo if i not in inst]
        if nobuild:
            lost |= {i for i in new if all(v in ("absent", "priv") for v in vis[i - 1].values())}
        elif m["errm"]["kind"] == "runtime" and m["errm"]["m"] in new:
            pos = new.index(m["errm"]["m"])
            inst |= set(new[:pos])
            skipped |= set(new[pos + 1:])
            broken = True
        elif m["errm"]["kind"] == "runtime" and m["errm"]["m"] in clo and broken:
            break
        else:
            inst |= set(clo)
    return sorted(leak), sorted(lost), sorted(skipped)


def tag_of(c):
    m = c["model"]
    leak, lost, skipped = features(m)
    mm = sorted({r["mod"] for rs in m["mreqs"] for r in rs})
    pm = sorted({s["mod"] for u in m["units"] for s in u["specs"]})
    fails = [u["fail"] for u in m["units"]]
    vis = ["".join(v[0] for v in vs) for vs in m["vis"]]   # e.g. "ppc" = helper priv, va plain?, ...
    own = sorted({n for u in m["units"] for n in u["own"]})
    return (f"nm={m['nm']};errm={m['errm']['kind']};mmods={','.join(mm)};pmods={','.join(pm)};"
            f"fails={','.join(fails)};units={len(m['units'])};own={','.join(own)};vis={'/'.join(vis)};"
            f"leak={','.join(leak)};lost={','.join('m%d' % i for i in lost)};skipped={','.join('m%d' % i for i in skipped)}")


def render(c, prefix):
    """Modules.tla case -> (replayer case, files).  @DIR@ in unit texts becomes the case's directory."""
    cid = case_id(c, prefix)
    d = os.path.join(FILES, cid)
    steps = []
    for s in c["steps"]:
        emit = s["emit"] if s["ce"] else None
        if emit is not None and not isinstance(emit, list):
            emit = []
        steps.append({"src": s["src"].replace("@DIR@", d), "class": s["class"], "emit": emit})
    case = {"id": cid, "fresh": True, "tag": tag_of(c), "steps": steps,
            "files": {m["file"]: m["text"] for m in c["mods"]}}
    return case


def materialise(cases):
    for c in cases:
        d = os.path.join(FILES, c["id"])
        os.makedirs(d, exist_ok=True)
        for name, text in c["files"].items():
            p = os.path.join(d, name)
            if not os.path.exists(p):
                with open(p, "w") as f:
                    f.write(text + "\n")


def nontrivial(case):
    """A case is non-trivial when it has >= 2 module files, or a modifier other than a plain require,
    or a name defined by the unit itself, or a failing unit/module, or more than one unit."""
    t = case.get("tag", "")
    f = dict(kv.split("=", 1) for kv in t.split(";") if "=" in kv)
    return (f.get("nm") != "1" or f.get("pmods") not in ("plain", "") or f.get("own") != "" or f.get("errm") != "none"
            or f.get("units") != "1" or any(x != "none" for x in f.get("fails", "").split(",")))
