"""C14 - modules expose exactly what they provide and are instantiated once (Modules.tla).

TLC enumerates (exhaustive slices) and samples (seeded simulation) module graphs x visibility
assignments x require modifiers x engine histories, and computes for every step the expected
class and emitted values (spec/Modules.tla is the oracle; nothing in this file decides an
expectation).  This module materialises the module files of each case under
/verif/work/C14/files/<case-id>/ (units require them by absolute path, modules require each other
by relative path) and replays the history on a fresh engine, with STEEL_MODULE_INLINE unset and =1,
and a sample with the JIT off.

Families (spec/MC_Modules_<name>.cfg):
  mods1       1 module x 27 visibility assignments x 10 modifiers x own definitions (exhaustive)
  rev         only-in around prefix-in (exhaustive; known finding)
  dep2        m2 requires m1 with a module-level modifier, contract/re-export visibilities (exhaustive)
  hist        3-unit histories over 2 modules with failing units / erroneous modules (exhaustive)
  stages      the same histories with units rejected at the other compile stages: parser, macro expander
              (no clause matches), lowering (name defined twice in a form, assignment to a literal)
  sim, simerr         seeded simulation of the full product (<= 3 modules, <= 2 requires each, 3 units)
  simsafe, simerrsafe the same without the two shapes that trigger known defects (Avoid), so that
                      nothing else can hide behind a known finding
The python-side `features` only compute TAGS (which known defect a case can run into).
"""
import hashlib
import json
import os
import random
import shutil

import vlib

PROP = "C14"
FILES = os.path.join(vlib.WORK, PROP, "files")

def case_id(c, prefix):
    h = hashlib.sha1(json.dumps([c["mods"], [s["src"] for s in c["steps"]]], sort_keys=True).encode()).hexdigest()[:14]
    return f"{prefix}-{h}"


# modifier id -> (all, sel, ren, pre, rev), as in Modules.tla ModCat (used for TAGS only: the
# expectations come from the spec)
MODCAT = {
    "plain": (True, (), False, False, False), "pre": (True, (), False, True, False),
    "only_a": (False, ("va",), False, False, False), "only_b": (False, ("vb",), False, False, False),
    "only_h": (False, ("helper",), False, False, False), "only_ab": (False, ("va", "vb"), False, False, False),
    "only_ah": (False, ("va", "helper"), False, False, False), "only_bh": (False, ("vb", "helper"), False, False, False),
    "ren": (False, ("va",), True, False, False), "ren_b": (False, ("va", "vb"), True, False, False),
    "pre_only_a": (False, ("va",), False, True, False), "pre_only_bh": (False, ("vb", "helper"), False, True, False),
    "pre_ren": (False, ("va",), True, True, False), "rev_a": (False, ("va",), False, True, True),
    "rev_bh": (False, ("vb", "helper"), False, True, True), "rev_ren": (False, ("va",), True, True, True),
}
NAMES = ("helper", "va", "vb")


def local_name(mid, n):
    _all, _sel, ren, pre, rev = MODCAT[mid]
    rn = ren and n == "va"
    if rev:
        return "vz" if rn else "p." + n
    base = "vz" if rn else n
    return "p." + base if pre else base


def closure(mreqs, roots):
    seen = []

    def visit(i):
        if i in seen:
            return
        for r in mreqs[i - 1]:
            visit(r["m"])
        seen.append(i)
    for r in roots:
        visit(r)
    return seen


def features(m):
    """Structural features of a case that known findings are keyed on (tags only)."""
    vis = [dict(zip(NAMES, vs)) for vs in m["vis"]]
    # leak: a MODULE imports a contract/out name of another module under a different local name
    leak = set()
    for i, rs in enumerate(m["mreqs"]):
        for r in rs:
            al, sel, _ren, _pre, _rev = MODCAT[r["mod"]]
            for n in NAMES:
                if vis[r["m"] - 1][n] == "ctr" and (al or n in sel) and local_name(r["mod"], n) != n:
                    leak.add(local_name(r["mod"], n))
    # lost: a module that provides nothing is in the require closure of a unit that fails to BUILD
    # before the module was ever instantiated
    # skipped: a module of a unit that was abandoned (a module body before it raised) before its body ran
    inst, lost, skipped, broken = set(), set(), set(), False
    for u in m["units"]:
        clo = closure(m["mreqs"], [s["m"] for s in u["specs"]])
        nobuild = u["fail"] == "free" or (m["errm"]["kind"] == "compile" and m["errm"]["m"] in clo)
        new = [i for i in clo if i not in inst]
        if nobuild:
            lost |= {i for i in new if all(v in ("absent", "priv") for v in vis[i - 1].values())}
        elif m["errm"]["kind"] == "runtime" and m["errm"]["m"] in new:
            pos = new.index(m["errm"]["m"])
            inst |= set(new[:pos])
            skipped |= set(new[pos + 1:])
            broken = True
        elif m["errm"]["kind"] == "runtime" and m["errm"]["m"] in clo and broken:
            break
        else:
            inst |= set(clo)
    return sorted(leak), sorted(lost), sorted(skipped)


def tag_of(c):
    m = c["model"]
    leak, lost, skipped = features(m)
    mm = sorted({r["mod"] for rs in m["mreqs"] for r in rs})
    pm = sorted({s["mod"] for u in m["units"] for s in u["specs"]})
    fails = [u["fail"] for u in m["units"]]
    vis = ["".join(v[0] for v in vs) for vs in m["vis"]]   # e.g. "ppc" = helper priv, va plain?, ...
    own = sorted({n for u in m["units"] for n in u["own"]})
    return (f"nm={m['nm']};errm={m['errm']['kind']};mmods={','.join(mm)};pmods={','.join(pm)};"
            f"fails={','.join(fails)};units={len(m['units'])};own={','.join(own)};vis={'/'.join(vis)};"
            f"leak={','.join(leak)};lost={','.join('m%d' % i for i in lost)};skipped={','.join('m%d' % i for i in skipped)}")


def render(c, prefix):
    """Modules.tla case -> (replayer case, files).  @DIR@ in unit texts becomes the case's directory."""
    cid = case_id(c, prefix)
    d = os.path.join(FILES, cid)
    steps = []
    for s in c["steps"]:
        emit = s["emit"] if s["ce"] else None
        if emit is not None and not isinstance(emit, list):
            emit = []
        steps.append({"src": s["src"].replace("@DIR@", d), "class": s["class"], "emit": emit})
    case = {"id": cid, "fresh": True, "tag": tag_of(c), "steps": steps,
            "files": {m["file"]: m["text"] for m in c["mods"]}}
    return case


def materialise(cases):
    for c in cases:
        d = os.path.join(FILES, c["id"])
        os.makedirs(d, exist_ok=True)
        for name, text in c["files"].items():
            p = os.path.join(d, name)
            if not os.path.exists(p):
                with open(p, "w") as f:
                    f.write(text + "\n")


def nontrivial(case):
    """A case is non-trivial when it has >= 2 module files, or a modifier other than a plain require,
    or a name defined by the unit itself, or a failing unit/module, or more than one unit."""
    t = case.get("tag", "")
    f = dict(kv.split("=", 1) for kv in t.split(";") if "=" in kv)
    return (f.get("nm") != "1" or f.get("pmods") not in ("plain", "") or f.get("own") != "" or f.get("errm") != "none"
            or f.get("units") != "1" or any(x != "none" for x in f.get("fails", "").split(",")))


def annotate(case, v):
    """Make the symptom of a failing verdict explicit in its `why` (known findings are keyed on it):
    which instantiation events are missing/extra, which name a failing probe refers to, the engine's message."""
    if v["pass"] or v["step"] >= len(case["steps"]) or v["step"] >= len(v.get("got", [])):
        return v
    st, got = case["steps"][v["step"]], v["got"][v["step"]]
    notes = []
    if st.get("emit") is not None and v["why"].startswith("emit:"):
        exp_i = [e for e in st["emit"] if e.startswith("init-")]
        got_i = [e for e in got["emit"] if e.startswith("init-")]
        miss = [e for e in exp_i if e not in got_i]
        extra = [e for e in got_i if e not in exp_i] + [e for e in set(got_i) if got_i.count(e) > 1]
        if miss:
            notes.append("missing-init: " + ",".join(miss))
        if extra:
            notes.append("extra-init: " + ",".join(sorted(set(extra))))
        if not miss and not extra and exp_i != got_i:
            notes.append("init-order")
        if not miss and not extra and exp_i == got_i:
            notes.append("value-mismatch")
    if st["src"].startswith("(emit ("):
        notes.append("probe: " + st["src"][7:].split(" ")[0])
    elif st["src"].startswith("(require"):
        notes.append("unit")
    # does the failing step involve a name that a module bound as an engine-wide global (tag leak=...)?
    leak = [x for x in dict(kv.split("=", 1) for kv in case["tag"].split(";") if "=" in kv).get("leak", "").split(",") if x]
    touched = []
    for name in leak:
        in_step = f"({name} " in st["src"]
        in_module_code = v["why"].startswith("emit:") and any(f"({name} " in t for t in case["files"].values())
        if in_step or in_module_code:
            touched.append(name)
    if touched:
        notes.append("touches-leaked: " + ",".join(touched))
    if got.get("msg"):
        notes.append("msg: " + got["msg"][:90])
    v = dict(v)
    v["why"] = v["why"] + " [" + "; ".join(notes) + "]"
    return v


ENVS = {
    "dflt": None,                                   # module inlining off, JIT on
    "minl": {"STEEL_MODULE_INLINE": "1"},
    "nojit": {"STEEL_JIT": "false"},
    "nojit-minl": {"STEEL_JIT": "false", "STEEL_MODULE_INLINE": "1"},
}


def replay_env(cases, work, envname, name):
    """Replay `cases` under one engine configuration; ids get the configuration as suffix."""
    env = ENVS[envname]
    cs = [dict(c, id=f"{c['id']}.{envname}", tag=c["tag"] + f";env={envname}") for c in cases]
    # the files of a case are shared by all its configurations: the directory is named by the base id
    vs = vlib.replay(cs, work, env_extra=env, jobs=12, timeout_ms=30000, name=name)
    # a dead or hung replayer process is attributed to the case that was running; before it is
    # reported, the case is run once more on its own (the harness binary may have been rebuilt
    # under a running check) - a crash that is the engine's own shows up again
    redo = [i for i, v in enumerate(vs) if v["why"].startswith(("process ", "no verdict"))]
    if redo:
        again = vlib.replay([cs[i] for i in redo], work, env_extra=env, jobs=4, timeout_ms=30000, name=name + "-redo")
        for i, v in zip(redo, again):
            vs[i] = v
    return cs, [annotate(c, v) for c, v in zip(cs, vs)]


def selftest(cases, work):
    """Non-vacuity: three mutant oracles must be reported by the replayer.
       (1) a name the spec says is NOT visible is expected to be callable,
       (2) a module is expected to be instantiated twice,
       (3) a contract violation at the boundary is expected to go unnoticed."""
    muts = []
    for c in cases:
        steps = c["steps"]
        if len(muts) == 0:
            for i, s in enumerate(steps):
                if s["class"] == "err" and s["src"].startswith("(emit (helper 1))") and "(define (helper" in "".join(c["files"].values()):
                    m = json.loads(json.dumps(c))
                    m["id"] = "mutant-private-visible"
                    m["steps"][i]["class"] = "ok"
                    m["steps"][i]["emit"] = None
                    muts.append(m)
                    break
        if len(muts) == 1:
            s0 = steps[0]
            if s0["class"] == "ok" and s0["emit"] and s0["emit"][0].startswith("init-"):
                m = json.loads(json.dumps(c))
                m["id"] = "mutant-instantiated-twice"
                m["steps"][0]["emit"] = [s0["emit"][0]] + s0["emit"]
                muts.append(m)
        if len(muts) == 2:
            for i, s in enumerate(steps):
                if (s["class"] == "err" and s["src"].endswith(" 's))") and i > 0
                        and steps[i - 1]["class"] == "ok" and steps[i - 1]["src"] == s["src"].replace(" 's))", " 1))")):
                    m = json.loads(json.dumps(c))
                    m["id"] = "mutant-contract-unchecked"
                    m["steps"][i]["class"] = "ok"
                    m["steps"][i]["emit"] = None
                    muts.append(m)
                    break
        if len(muts) == 3:
            break
    if len(muts) < 3:
        raise vlib.ToolError(f"self-test: only {len(muts)} mutant oracles could be built")
    for m in muts:
        src_id = None
        for c in cases:
            if c["files"] == m["files"] and c["steps"][0]["src"] == m["steps"][0]["src"]:
                src_id = c["id"]
                break
        # the mutant reuses the files (and the directory) of the case it was derived from
        assert src_id is not None
    vs = vlib.replay(muts, work, jobs=3, timeout_ms=30000, name="c14-selftest")
    for m, v in zip(muts, vs):
        if v["pass"]:
            raise vlib.ToolError(f"self-test: mutant oracle {m['id']} was not reported by the replayer")
    return len(muts)


# (cfg, prefix, exhaustive?, quick count, thorough count): exhaustive slices are enumerated completely by
# TLC and then sampled by seed; simulations draw `count` behaviours (TLC -simulate, seeded)
FAMILIES = [
    ("MC_Modules_mods1.cfg", "mods1", True, 100, 1000),
    ("MC_Modules_rev.cfg", "rev", True, 16, 100),
    ("MC_Modules_dep2.cfg", "dep2", True, 100, 700),
    ("MC_Modules_hist.cfg", "hist", True, 130, 800),
    ("MC_Modules_stages.cfg", "stages", True, 150, 1500),
    ("MC_Modules_simsafe.cfg", "simsafe", False, 224, 1120),
    ("MC_Modules_sim.cfg", "sim", False, 128, 640),
    ("MC_Modules_simerrsafe.cfg", "simerrsafe", False, 64, 240),
    ("MC_Modules_simerr.cfg", "simerr", False, 40, 160),
]


def generate(tier, seed, r, work):
    rnd = random.Random(seed)
    out = []
    for cfg, prefix, exhaustive, nq, nt in FAMILIES:
        want = nq if tier == "quick" else nt
        if exhaustive:
            res = vlib.run_tlc("Modules", cfg, work, workers=8, timeout=900)
            r.add_tlc(res)
        else:
            per_worker = (want + 7) // 8
            res = vlib.run_tlc("Modules", cfg, work, workers=8, timeout=900, simulate=f"num={per_worker}", seed=seed)
        seen, cs = set(), []
        for c in res["cases"]:
            k = render(c, prefix)
            if k["id"] not in seen:
                seen.add(k["id"])
                cs.append(k)
        cs.sort(key=lambda k: k["id"])
        total = len(cs)
        if len(cs) > want:
            cs = rnd.sample(cs, want)
        r.notes.append(f"{prefix}: {total} cases generated ({'exhaustive slice' if exhaustive else 'seeded simulation'}), {len(cs)} replayed")
        out += cs
    return out


def run(tier, seed):
    work = os.path.join(vlib.WORK, PROP)
    shutil.rmtree(FILES, ignore_errors=True)
    r = vlib.Result(PROP, tier, seed)
    rnd = random.Random(seed + 1)
    cases = generate(tier, seed, r, work)
    materialise(cases)
    n_mut = selftest(cases, work)
    r.notes.append(f"self-test: {n_mut} mutant oracles reported by the replayer")

    plan = [("dflt", cases)]
    minl = rnd.sample(cases, int(len(cases) * (0.6 if tier == "thorough" else 0.35)))
    plan.append(("minl", minl))
    nj = rnd.sample(cases, min(len(cases), 120 if tier == "quick" else 800))
    plan.append(("nojit", nj[: len(nj) // 2]))
    plan.append(("nojit-minl", nj[len(nj) // 2:]))
    for envname, cs in plan:
        rc, vs = replay_env(cs, work, envname, f"c14-{envname}")
        r.add_cases(rc, vs, nontrivial=nontrivial)
        r.notes.append(f"{envname}: {len(rc)} histories, {sum(1 for v in vs if not v['pass'])} not as specified")
    r.cov["rule"] = ("engine histories generated by Modules.tla: exhaustive slices (one module x every visibility "
                     "assignment x every modifier; two modules x module-level modifiers; 3-unit histories with failing "
                     "units and erroneous modules) and seeded simulations of the full product (<= 3 modules, <= 2 "
                     "requires per module/unit, 3 units), each on a fresh engine, under STEEL_MODULE_INLINE unset/1 "
                     "and a sample with STEEL_JIT=false; non-trivial = >= 2 module files, or a modifier other than "
                     "plain, or a unit-defined name, or a failing unit/module, or > 1 unit")
    r.cov["exhaustive"] = False
    r.assumptions.append("module files do not change during a history (recompilation of changed files is not modelled)")
    r.assumptions.append("for-syntax provides / macros (C13 machinery), built-in and dylib modules are out of scope")
    return r.finish()


def replay_file(path):
    with open(path) as f:
        obj = json.load(f)
    case = obj["case"]
    if "files" in case:
        base = dict(case, id=case["id"].rsplit(".", 1)[0])
        materialise([base])
    envname = case["id"].rsplit(".", 1)[-1]
    return vlib.replay_file(PROP, path, env_extra=ENVS.get(envname))
