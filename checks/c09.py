"""C09 - tail calls run in constant space at any iteration count."""
import os
import vlib
import langcases as lc

PROP = "C09"

# non-tail recursion far beyond any frame budget: a value or an error value, never a crash
DEEP = [
    ("deep-nontail-1e6", "(define (f@@ n) (if (= n 0) 0 (+ 1 (f@@ (- n 1))))) (emit (f@@ 1000000))", ["1000000"]),
    ("deep-nontail-list", "(define (bld@@ n) (if (= n 0) '() (cons n (bld@@ (- n 1))))) (emit (length (bld@@ 300000)))", ["300000"]),
    ("deep-mutual-nontail", "(define (a@@ n) (if (= n 0) 0 (+ 1 (b@@ (- n 1))))) (define (b@@ n) (if (= n 0) 0 (+ 1 (a@@ (- n 1))))) (emit (a@@ 400000))", ["400000"]),
]
LONG = [
    # a tail loop far longer than any stack could hold, with allocation per iteration
    ("long-tail-1e6", "(define (lp@@ i acc) (if (= i 1000000) acc (lp@@ (+ i 1) (+ acc 1)))) (emit (lp@@ 0 0))", ["1000000"]),
    ("long-mutual-1e6", "(define (e@@ i) (if (= i 1000000) 'done (o@@ (+ i 1)))) (define (o@@ i) (e@@ (+ i 1))) (emit (e@@ 0))", ["done"]),
    ("long-named-let-alloc", "(emit (let loop ([i 0] [acc '()]) (if (= i 500000) (length acc) (loop (+ i 1) (if (> (length acc) 10) '() (cons i acc))))))", None),
]


def run(tier, seed):
    work = os.path.join(vlib.WORK, PROP)
    r = vlib.Result(PROP, tier, seed)
    cases = lc.run_family(vlib, "tail", work, r, fresh=True)
    extra = []
    for n, src, exp in DEEP + LONG:
        st = {"src": src, "class": "noncrash" if n.startswith("deep") else "ok"}
        if exp is not None and not n.startswith("deep"):
            st["emit"] = exp
        extra.append({"id": "x-" + n, "fresh": True, "tag": "long", "steps": [st]})
    for env in ({}, {"STEEL_JIT": "false"}):
        verdicts = vlib.replay(cases + extra, work, env_extra=env, jobs=12, timeout_ms=120000, name="c09")
        tagged = [dict(c, id=c["id"] + ("@nojit" if env else "")) for c in cases + extra]
        for t, v in zip(tagged, verdicts):
            v["id"] = t["id"]
        r.add_cases(tagged, verdicts, nontrivial=lambda c: True)
    # impl -> spec: event traces of the loops (first 3000 events of each) against spec/Vm.tla: a tail-call op code
    # reuses its frame and leaves the stack at frame base + arguments (TailCallClosure), returns go where the
    # frame was pushed from
    vlib.vm_trace_check(r, cases, work, "c09")
    for env in (None, {"STEEL_JIT": "false"}):
        lc.replay_modules(vlib, cases, work, r, "c09.mod" + ("n" if env else ""), env=env, nontriv=lambda c: True)
    r.cov["rule"] = ("tail family of LangFam.tla: 20 loop shapes; the control-stack depth at loop exit after 2 iterations and after "
                     "100000 iterations is compared ((#%verif-depth) hook); the expected answer is computed by the reference machine, "
                     "where the depth is the number of continuation frames (so tail position is decided by the semantics, including two "
                     "non-tail shapes that must differ); plus 10^6-iteration loops and deep non-tail recursion (no crash); "
                     "the interpreter's event trace of every loop validated by TLC against spec/Vm.tla (Trace_Vm.tla)")
    r.cov["exhaustive"] = True
    return r.finish()


def replay_file(path):
    return vlib.replay_file(PROP, path)
