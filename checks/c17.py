"""C17 - a running script can always be interrupted."""
import json
import os
import spcommon as sp
import vlib

PROP = "C17"

# loop shapes (never terminate on their own within the budget)
LOOPS = [
    ("self-tail", "(define (lp@@ i) (lp@@ (+ i 1))) (lp@@ 0)"),
    ("mutual-tail", "(define (ev@@ i) (od@@ (+ i 1))) (define (od@@ i) (ev@@ (+ i 1))) (ev@@ 0)"),
    ("named-let", "(let loop ([i 0] [acc 0]) (loop (+ i 1) (+ acc i)))"),
    ("non-tail-restart", "(define (deep@@ n) (if (= n 0) 0 (+ 1 (deep@@ (- n 1))))) (let loop () (deep@@ 200) (loop))"),
    ("in-map-callback", "(map (lambda (x) (let loop ([i 0]) (loop (+ i 1)))) (list 1 2 3))"),
    ("in-foldl-callback", "(foldl (lambda (x acc) (let loop ([i 0]) (loop (+ i 1)))) 0 (list 1 2))"),
    ("in-transducer", "(transduce (list 1 2 3) (mapping (lambda (x) (let loop ([i 0]) (loop (+ i 1))))) (into-list))"),
    ("in-handler", "(with-handler (lambda (e) (let loop ([i 0]) (loop (+ i 1)))) (car 1))"),
    ("in-wind-body", "(dynamic-wind (lambda () 1) (lambda () (let loop ([i 0]) (loop (+ i 1)))) (lambda () 2))"),
    # the script catches every error and carries on: the interrupt is a request of the HOST, a handler must
    # not be able to swallow it (body under a catch-all handler, retried forever)
    ("handler-retry-loop", "(define (work@@ n) (let loop ([i 0]) (if (< i n) (loop (+ i 1)) i))) (let retry ([k 0]) (with-handler (lambda (e) 'recovered) (work@@ 20000)) (retry (+ k 1)))"),
    ("handler-retry-loop-cweh", "(define (work@@ n) (let loop ([i 0]) (if (< i n) (loop (+ i 1)) i))) (let retry ([k 0]) (call-with-exception-handler (lambda (e) 'recovered) (lambda () (work@@ 20000))) (retry (+ k 1)))"),
    ("nested-handlers-retry", "(define (work@@ n) (let loop ([i 0]) (if (< i n) (loop (+ i 1)) i))) (let retry ([k 0]) (with-handler (lambda (e) 'outer) (with-handler (lambda (e) 'inner) (work@@ 20000)) (work@@ 20000)) (retry (+ k 1)))"),
    ("wind-after-retry", "(define (work@@ n) (let loop ([i 0]) (if (< i n) (loop (+ i 1)) i))) (let retry ([k 0]) (with-handler (lambda (e) 'recovered) (dynamic-wind (lambda () 1) (lambda () (work@@ 20000)) (lambda () (work@@ 2000)))) (retry (+ k 1)))"),
    ("handler-around-map", "(define (work@@ n) (let loop ([i 0]) (if (< i n) (loop (+ i 1)) i))) (let retry ([k 0]) (with-handler (lambda (e) '()) (map (lambda (x) (work@@ 20000)) (list 1 2 3))) (retry (+ k 1)))"),
    ("alloc-heavy", "(let loop ([i 0] [acc '()]) (loop (+ i 1) (if (> (length acc) 2000) '() (cons (box i) acc))))"),
    ("hash-churn", "(let loop ([i 0] [h (hash)]) (loop (+ i 1) (hash-insert h (modulo i 100) i)))"),
    ("string-churn", "(let loop ([i 0] [s \"\"]) (loop (+ i 1) (if (> (string-length s) 1000) \"\" (string-append s \"x\"))))"),
]


def run(tier, seed):
    work = os.path.join(vlib.WORK, PROP)
    r = vlib.Result(PROP, tier, seed)
    r.assumptions.append("sequentially consistent interleavings of the hooked accesses")
    known = {f["key"]: f for f in r.findings if f.get("status") == "known"}
    found = sp.model_check(r, work, tier, ["irq_clobbered", "poll_loop_ignores_irq"])

    def kf(key):
        if key in known:
            r.known[key] = known[key]["what"]
            return True
        return False

    # directed: interrupt during the thread's own collection / right after another thread's resume
    d = sp.run_directed(["irq_clobbered", "poll_loop_ignores_irq"], work)
    end, val, path = d["irq_clobbered"]
    r.cov["evaluations"] += 2
    r.cov["samples"].append({"scenario": "directed-irq_clobbered", "end": end, "validation": val})
    tags = {t for t, _ in val["flags"]}
    lost = "C17-interrupt-overwritten" in tags or (end.get("irq_sent") and not str(end.get("end", "")).startswith("err"))
    if lost:
        if not kf("C17-interrupt-overwritten-by-collection"):
            r.violation(f"interrupt requested during a collection is lost: {end.get('end')} flags={sorted(tags)}",
                        {"id": "directed-irq_clobbered", "trace": path, "end": end, "validation": val})
    else:
        r.cov["traces_validated_against_impl"] += 1
    end, val, path = d["poll_loop_ignores_irq"]
    r.cov["samples"].append({"scenario": "directed-poll_loop_ignores_irq", "end": end})
    e = str(end.get("end", ""))
    if end.get("irq_sent") and not e.startswith("err"):
        if not kf("C17-interrupt-while-parked-stalls"):
            r.violation(f"interrupt after another thread's resume: evaluation ends with {e} (last events {end.get('last')})",
                        {"id": "directed-poll_loop_ignores_irq", "trace": path, "end": end})
    else:
        r.cov["traces_validated_against_impl"] += 1

    # every loop shape x JIT on/off: interrupt after 60 ms must end the evaluation with an error,
    # and the engine must be usable afterwards (resume + probe)
    nontriv = 0
    scen = []
    for name, src in LOOPS:
        for jit in (False, True):
            scen.append(({"id": f"loop-{name}{'-jit' if jit else ''}", "main": src.replace("@@", "-v"), "prelude": "",
                          "irq": {"after_ms": 60}, "watchdog_ms": 6000}, jit))
    from concurrent.futures import ThreadPoolExecutor
    with ThreadPoolExecutor(max_workers=6) as ex:
        outs = list(ex.map(lambda a: (a[0], a[1]) + sp.record(a[0], work, jit=a[1]), scen))
    for sc, jit, end, path in outs:
        r.cov["evaluations"] += 1
        nontriv += 1
        e = str(end.get("end", ""))
        if e.startswith("err") and "nterrupt" in e:
            r.cov["traces_validated_against_impl"] += 1
            if len(r.cov["samples"]) < 8:
                r.cov["samples"].append({"scenario": sc["id"], "end": end})
        else:
            # an ignored interrupt is attributed to the known finding only when the recorded trace shows
            # its signature: the request was overwritten by a collection's pause/resume
            val = sp.validate_irq_window(path, work, sc["id"]) if end.get("irq_sent") else None
            tags = {t for t, _ in (val or {}).get("flags", [])}
            if "C17-interrupt-overwritten" in tags and kf("C17-interrupt-overwritten-by-collection"):
                r.notes.append(f"{sc['id']}: interrupt overwritten by a collection (known finding), outcome {e}")
            else:
                r.violation(f"{sc['id']}: interrupt did not stop the evaluation: {e} (latency {end.get('irq_latency_ms')} ms)",
                            {"id": sc["id"], "trace": path, "end": end, "jit": jit, "window_validation": val})
    r.cov["distinct_nontrivial"] = nontriv + 2
    r.cov["rule"] = ("Safepoint.tla invariant C17 (a pending interrupt is never overwritten) exhaustively on the repaired protocol and as "
                     "counterexample of the as-is steps; directed interrupt placements and 17 loop shapes x JIT on/off on the real VM: "
                     "the evaluation must end with the interruption error")
    return r.finish()


def replay_file(path):
    obj = json.load(open(path))
    print(json.dumps(obj["case"], indent=1)[:2000])
    return 1
