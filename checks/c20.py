"""C20 - the host boundary converts faithfully and never exposes dangling host references.

Two specifications, one replayer (harness/src/bin/hostapi.rs):

* spec/Nursery.tla  lent references as a state machine (guards, handles, stashes, derived references,
  borrow discipline).  Design level: the nursery mechanism with per-guard ownership satisfies
  InvNoDangling / InvFaithful / InvChildLive / InvNoResidue / InvNoInflight in every state
  (MC_Nursery_fixed*), the mechanism as coded ("shared_stack", "no_wait") violates each of them
  (MC_Nursery_asis_*).  Binding: every
  behaviour of the bounded machine is replayed on real engines; the oracle is the ideal semantics
  (a use succeeds iff the lending call is active and the borrow discipline allows it), `blame` in the
  tag is the model's prediction of what the as-is mechanism breaks.
* spec/Convert.tla  conversions as an algebra over exact integers: range predicate and round-trip
  equation per host type, boundary values per type, argument lists per registered signature shape.
"""
import hashlib
import json
import os
import random

import vlib

PROP = "C20"
BIN = "hostapi"
ASIS = [("MC_Nursery_asis_dangling.cfg", "InvNoDangling"), ("MC_Nursery_asis_faithful.cfg", "InvFaithful"),
        ("MC_Nursery_asis_childlive.cfg", "InvChildLive"), ("MC_Nursery_asis_residue.cfg", "InvNoResidue"),
        ("MC_Nursery_asis_inflight.cfg", "InvNoInflight")]


def decode(o):
    """Convert.tla writes strings and chars by code point (TLA+ strings are ASCII); re-encode."""
    if isinstance(o, dict):
        if set(o.keys()) == {"cps"}:
            return "".join(chr(c) for c in o["cps"])
        if set(o.keys()) == {"cp"}:
            return "U+%04X" % o["cp"]
        return {k: decode(v) for k, v in o.items()}
    if isinstance(o, list):
        return [decode(x) for x in o]
    return o


def to_cases(res, prefix):
    out, seen = [], set()
    for c in res["cases"]:
        c = decode(c)
        hid = hashlib.sha1(json.dumps([c["tag"], c["steps"]], sort_keys=True).encode()).hexdigest()[:14]
        if hid in seen:
            continue
        seen.add(hid)
        out.append({"id": f"{prefix}-{hid}", "tag": c["tag"], "steps": c["steps"]})
    out.sort(key=lambda c: c["id"])      # TLC's output order depends on worker scheduling
    return out


def nontrivial(case):
    """Nursery behaviour: at least one use that must be refused (a late or undisciplined use) or a host-side
    step beyond a single lending call.  Conversion behaviour: it must fail, or it compares a host-side value
    (what the recording function received / what the host got back) with the model's."""
    if case["tag"].startswith("nursery"):
        refused = any(s.get("class") == "err" for s in case["steps"])
        guards = sum(1 for s in case["steps"] if s.get("h") == "open")
        return refused or guards > 1
    return any(s.get("class") == "err" or s.get("calls") or "back" in s for s in case["steps"])


def selftest(work, ncases, ccases, nverd, cverd):
    """Non-vacuity: mutant oracles and a sensor test must be REPORTED by the replayer."""
    muts = []
    # 1. a late use that the mutant oracle expects to succeed
    for c, v in zip(ncases, nverd):
        if not v["pass"]:
            continue
        idx = None
        seen_exit = False
        for i, s in enumerate(c["steps"]):
            if s.get("h") == "exit":
                seen_exit = True
            if seen_exit and s.get("class") == "err" and s.get("src", "").startswith("(emit (cell-get"):
                idx = i
                break
        if idx is not None:
            m = json.loads(json.dumps(c))
            m["id"] = "mutant-late-use"
            m["steps"][idx]["class"] = "ok"
            m["steps"][idx]["emit"] = ["100"]
            m["steps"][idx].pop("acc", None)
            muts.append(m)
            break
    # 2. conversion: a value that converts, expected to be refused; one that is refused, expected to convert;
    #    a wrong expected host value; a wrong expected invocation log
    def first(pred):
        for c, v in zip(ccases, cverd):
            if v["pass"] and pred(c):
                return json.loads(json.dumps(c))
        return None
    m = first(lambda c: "|dir=arg|" in c["tag"] and "|exp=ok|" in c["tag"] and "fam=int" in c["tag"])
    if m:
        m["id"] = "mutant-arg-ok-as-err"
        m["steps"][0]["class"] = "err"
        muts.append(m)
    m = first(lambda c: "|dir=arg|" in c["tag"] and "|exp=err|" in c["tag"] and "fam=int" in c["tag"])
    if m:
        m["id"] = "mutant-arg-err-as-ok"
        m["steps"][0]["class"] = "ok"
        m["steps"][0].pop("emit", None)
        m["steps"][0].pop("calls", None)
        muts.append(m)
    m = first(lambda c: "|dir=extract|" in c["tag"] and "|exp=ok|" in c["tag"] and "ty=i64" in c["tag"])
    if m:
        m["id"] = "mutant-extract-value"
        m["steps"][1]["back"] = "12345678"
        muts.append(m)
    m = first(lambda c: "fam=call" in c["tag"] and "v=good" in c["tag"] and "ty=f3" in c["tag"])
    if m:
        m["id"] = "mutant-calls"
        m["steps"][2]["calls"] = []
        muts.append(m)
    # 3. the late-access sensor itself
    muts.append({"id": "sensor-late-access", "tag": "selftest", "steps": [{"h": "poke", "obj": "A", "src": "#host poke A"}]})
    if len(muts) < 6:
        raise vlib.ToolError(f"self-test could not build its mutants ({[m['id'] for m in muts]})")
    vs = vlib.replay(muts, work, jobs=1, timeout_ms=5000, name="c20-selftest", binary=BIN)
    for m, v in zip(muts, vs):
        if v["pass"]:
            raise vlib.ToolError(f"self-test: the replayer did not report {m['id']}")
    if "late access" not in vs[-1]["why"]:
        raise vlib.ToolError(f"self-test: sensor case failed for another reason: {vs[-1]['why']}")
    return len(muts)


def settle_crashes(r, cases, verdicts, work, name, jobs=12):
    """A dead or hung replay process is attributed to the behaviour that was running.  The known
    lent-reference defects are real memory-safety bugs, so the process may also die one behaviour LATER.
    Every unattributed crash / hang is therefore re-run in a process of its own: if it reproduces it stays
    a failing verdict; if it does not and the behaviour that ran just before it in the same process failed
    with a known finding, the isolated verdict counts and the event is noted; otherwise it stays failing."""
    njobs = max(1, min(jobs, (len(cases) + 19) // 20))
    for i, v in enumerate(verdicts):
        if v["pass"] or not v["why"].startswith("process ") or vlib.match_finding(PROP, cases[i], v, r.findings):
            continue
        v2 = vlib.replay([cases[i]], work, jobs=1, timeout_ms=6000, name=name + "-iso", binary=BIN)[0]
        if not v2["pass"] and v2["why"].startswith("process "):
            continue
        j = i - njobs
        prev = vlib.match_finding(PROP, cases[j], verdicts[j], r.findings) if j >= 0 and not verdicts[j]["pass"] else None
        if prev:
            r.notes.append(f"{cases[i]['id']}: '{v['why']}' did not reproduce in a process of its own; the behaviour before it "
                           f"({cases[j]['id']}) failed with {prev['key']}; isolated verdict used")
            verdicts[i] = v2
    return verdicts


def run(tier, seed):
    work = os.path.join(vlib.WORK, PROP)
    r = vlib.Result(PROP, tier, seed)
    rnd = random.Random(seed)
    quick = tier == "quick"

    # ---- 1. design level (Nursery.tla): per-guard ownership satisfies the invariants ...
    for cfg in ["MC_Nursery_fixed_quick.cfg"] + ([] if quick else ["MC_Nursery_fixed.cfg"]):
        res = vlib.run_tlc("Nursery", cfg, work, workers=8, timeout=900, allow_violation=True)
        r.add_tlc(res)
        if res["violation"]:
            r.violation(f"Nursery.tla with per-guard ownership and a waiting drop violates {res.get('violated')} ({cfg})",
                        {"id": "nursery-model-fixed", "tlc": res["violation"][:3000]})
    # ... and the mechanism as coded (a per-thread stack popped by count) violates each of them
    for cfg, inv in ASIS:
        res = vlib.run_tlc("Nursery", cfg, work, workers=1, timeout=300, allow_violation=True)
        r.add_tlc(res)
        if res["violation"] and res.get("violated") == inv:
            case = {"id": f"nursery-design-{inv}", "tag": f"nursery-design|inv={inv}",
                    "steps": [{"src": f"TLC counterexample of {res.get('trace_len')} states, see {res['out']}"}],
                    "last_state": res.get("last_state", "")[:2000]}
            r.fail_case(case, {"why": f"Invariant {inv} is violated by the as-is nursery"})
        elif res["violation"]:
            raise vlib.ToolError(f"{cfg}: unexpected TLC error:\n{res['violation'][:2000]}")
        else:
            r.notes.append(f"{cfg}: the as-is model does not violate {inv} within its bounds")

    # ---- 2. lent references: behaviours of the bounded machine, replayed
    runs = [("MC_Nursery_gen_quick.cfg", None, None), ("MC_Nursery_pair.cfg", None, None),
            ("MC_Nursery_thread.cfg", None, None)]
    if not quick:
        runs += [("MC_Nursery_gen_full1.cfg", None, None), ("MC_Nursery_gen_acts2.cfg", None, 8000),
                 ("MC_Nursery_sim.cfg", "num=400", None)]
    ncases, seen = [], set()
    for cfg, sim, cap in runs:
        res = vlib.run_tlc("Nursery", cfg, work, workers=8 if not sim else 4, timeout=1200, simulate=sim,
                           seed=seed if sim else None)
        r.add_tlc(res)
        cs = to_cases(res, "n")
        if cap and len(cs) > cap:
            cs = rnd.sample(cs, cap)
            r.notes.append(f"{cfg}: {cap} behaviours sampled (seed {seed})")
        for c in cs:
            if c["id"] not in seen:
                seen.add(c["id"])
                ncases.append(c)
    nverd = vlib.replay(ncases, work, jobs=12, timeout_ms=6000, name="c20-nursery", binary=BIN)
    nverd = settle_crashes(r, ncases, nverd, work, "c20-nursery")
    r.add_cases(ncases, nverd, nontrivial=nontrivial)

    # ---- 3. conversions.  Convert.tla has no Next: TLC evaluates everything (the initial states and the
    #         Emit invariant on them) on the JVM's MAIN thread, whose stack the launcher sizes from its own
    #         command line only (JAVA_TOOL_OPTIONS=-Xss.. set by vlib reaches the worker threads);
    #         Pow2(128) recurses 128 deep, so the launcher gets -Xss through JDK_JAVA_OPTIONS.
    res = vlib.run_tlc("Convert", "MC_Convert_quick.cfg" if quick else "MC_Convert_thorough.cfg", work,
                       workers=1, timeout=900, env_extra={"JDK_JAVA_OPTIONS": "-Xss512m"})
    r.add_tlc(res)
    ccases = to_cases(res, "c")
    cverd = vlib.replay(ccases, work, jobs=12, timeout_ms=5000, name="c20-convert", binary=BIN)
    r.add_cases(ccases, cverd, nontrivial=nontrivial)

    n = selftest(work, ncases, ccases, nverd, cverd)
    r.notes.append(f"self-test: {n} mutant / sensor behaviours reported by the replayer")
    nf = sum(1 for v in nverd if not v["pass"])
    cf = sum(1 for v in cverd if not v["pass"])
    r.notes.append(f"{len(ncases)} nursery behaviours ({nf} failing), {len(ccases)} conversion behaviours ({cf} failing); "
                   "every failure is attributed to a known finding or reported")
    r.cov["rule"] = ("nursery: every behaviour of Nursery.tla within the bounds of the tier's configurations (host actions "
                     "open/enter/exit/drop of up to 2 guards on up to 2 engines, one or two state-changing script actions, all "
                     "expressible uses observed after every action), thorough adds the full loan table, two actions and "
                     "seeded 3-guard walks; conversions: every (type, boundary or wrong-kind value, direction) and every "
                     "(signature shape, argument list) of Convert.tla.  non-trivial = contains a use/conversion that must be "
                     "refused, a second guard, or a host-side value compared with the model")
    r.cov["exhaustive"] = True
    r.assumptions += ["64-bit target (isize/usize are 64 bits wide)",
                      "host code is safe Rust: guards are dropped only in orders the borrow checker admits",
                      "the dylib FFI conversions (steel_vm/ffi.rs) are not exercised"]
    return r.finish()


def replay_file(path):
    return vlib.replay_file(PROP, path, binary=BIN)
