"""C11 - equal? is structural, hashing agrees with it, collections behave as their models.

Equal.tla       heaps (DAGs with sharing) x pairs of values: equal?/eqv?/eq?/hash probes
Collections.tla operation sequences on lists, vectors, hash maps/sets, strings, byte vectors

TLC enumerates and computes every expectation; this module only renders the probe
templates the spec prints (PROBES line), replays, compares observation by observation and
attributes every mismatch either to a known finding (by the *feature* the spec computed for
the pair / by the operation that was running) or reports it as a VIOLATION.
"""
import hashlib
import json
import os
import random
import re

import vlib

PROP = "C11"
WORKERS = 8

# ----------------------------------------------------------------------------- configs

EQ_DEEP_FAMILIES = ["list", "vec", "hset", "struct", "box", "sim"]


def equal_runs(tier, seed, work):
    """(name, cfg) of the TLC runs of Equal.tla; the seed selects the sparse sub-tree of family "sim".
    thorough: additionally every graph family with one more heap node, one run per family (memory)."""
    q = cfg_variant("MC_Equal_quick.cfg", work, {"SEED": seed, "BRANCH": 4}, f"s{seed}")
    runs = [("quick", q)]
    if tier != "quick":
        for fam in EQ_DEEP_FAMILIES:
            runs.append(("deep_" + fam, cfg_variant("MC_Equal_thorough.cfg", work,
                                                    {"SEED": seed, "BRANCH": 5, "FAMSEL": '{"%s"}' % fam},
                                                    f"{fam}_s{seed}")))
    return runs


def cfg_variant(cfg, work, subst, suffix):
    """A copy of spec/<cfg> with some CONSTANTS replaced (thorough tier: larger N)."""
    text = open(os.path.join(vlib.SPEC, cfg)).read()
    for k, v in subst.items():
        text, n = re.subn(rf"(?m)^(\s*{k}\s*=\s*).*$", rf"\g<1>{v}", text)
        if n != 1:
            raise vlib.ToolError(f"constant {k} not found in {cfg}")
    os.makedirs(work, exist_ok=True)
    path = os.path.join(work, cfg.replace(".cfg", f"_{suffix}.cfg"))
    with open(path, "w") as f:
        f.write(text)
    return path


def probes_of(res):
    with open(res["out"], errors="replace") as f:
        for line in f:
            if line.startswith('<<"PROBES", '):
                inner = json.loads(line[len('<<"PROBES", '):].rstrip().rstrip(">"))
                return json.loads(inner)
    raise vlib.ToolError(f"no PROBES line in {res['out']}")


# ----------------------------------------------------------------------------- Equal: rendering

def subst(tpl, x, y):
    return tpl.replace("$x", x).replace("$y", y).replace("$b", "b0")


def eq_observations(c, probes):
    """Expand one TLC case into the list of observations (dicts) in emission order."""
    obs = []
    hs = c["handles"]
    for ps in c["pairs"]:
        xi, yi, same, hashed, eqv, eqp, ft = ps.split(",")
        x, y = hs[int(xi) - 1], hs[int(yi) - 1]
        for p in probes:
            g = p["grp"]
            if g == "hash" and not (hashed == "2" or (hashed == "1" and p["name"] == "tryget")):
                continue
            if g == "eqv":
                if eqv == "-":
                    continue
                exp = p["eq"] if eqv == "t" else p["ne"]
            elif g == "eqp":
                if eqp == "-":
                    continue
                exp = p["eq"] if eqp == "t" else p["ne"]
            else:
                exp = p["eq"] if same == "1" else p["ne"]
            if exp == "*":
                continue
            obs.append({"probe": p["name"], "src": subst(p["tpl"], x, y), "exp": exp, "ft": ft,
                        "eqv": p["eq"], "nev": p["ne"], "x": int(xi), "y": int(yi)})
    return obs


def eq_case(c, probes, base, prefix):
    obs = eq_observations(c, probes)
    body = " ".join(f"(emit {o['src']})" for o in obs)
    head = f"(let* ({c['lets']}(b0 {base})) "
    steps = []
    if c["pre"]:
        steps.append({"src": c["pre"], "class": "ok"})
    steps.append({"src": head + body + ")", "class": "ok", "emit": [o["exp"] for o in obs]})
    h = hashlib.sha1(json.dumps([s["src"] for s in steps]).encode()).hexdigest()[:12]
    case = {"id": f"{prefix}-{h}", "fresh": False, "tag": "equal:" + c["fam"], "steps": steps}
    return case, obs, head


def direction(o, got):
    if got == o["exp"]:
        return "ok"
    if o["exp"] == o["nev"] and got == o["eqv"]:
        return "fp"      # Steel says "equal / found", the model says different
    if o["exp"] == o["eqv"] and (got == o["nev"] or (o["nev"] == "*" and got == "#false")):
        return "fn"      # Steel says "different / not found", the model says equal
    return "other"


def micro_case(case, head, o, got, d):
    """A one-observation replayable case for a failing observation."""
    steps = [s for s in case["steps"][:-1]]
    steps.append({"src": head + f"(emit {o['src']}))", "class": "ok", "emit": [o["exp"]]})
    h = hashlib.sha1(json.dumps([s["src"] for s in steps]).encode()).hexdigest()[:12]
    tag = f"equal|probe={o['probe']}|ft={o['ft']}|dir={d}"
    return ({"id": f"E1-{h}", "fresh": False, "tag": tag, "steps": steps},
            {"pass": False, "why": f"emit: expected [{o['exp']}] got [{got}] for {o['src']}"})


def judge_equal(r, pairs, stats):
    """pairs: [(case, obs, head, verdict)].  Compares observation by observation."""
    reported = 0
    for case, obs, head, v in pairs:
        got_step = v["got"][len(case["steps"]) - 1] if len(v.get("got", [])) >= len(case["steps"]) else None
        emits = got_step["emit"] if got_step else []
        cls = got_step["class"] if got_step else (v["got"][-1]["class"] if v.get("got") else "none")
        stats["observations"] += len(obs)
        bad = []
        for k, o in enumerate(obs):
            if k < len(emits):
                d = direction(o, emits[k])
                if d != "ok":
                    bad.append((o, emits[k], d))
            else:
                # the step died here (error / panic / hang): attribute to the observation running
                bad.append((o, f"<{cls}: {(got_step or {}).get('msg') or v.get('why', '')}>"[:160], "other"))
                break
        # oracle-free: the observed equal? relation on the heap nodes is an equivalence
        bad += equivalence_defects(obs, emits)
        account(r, case, not bad, eq_nontrivial(obs))
        if not bad:
            if len(stats["passing"]) < 200:
                stats["passing"].append(case)
            continue
        stats["failing_cases"] += 1
        for o, got, d in bad:
            stats["mismatches"] += 1
            mc, mv = micro_case(case, head, o, got, d)
            grp = stats["groups"].setdefault(mc["tag"], [0, mc["steps"][-1]["src"], mv["why"]])
            grp[0] += 1
            f = vlib.match_finding(PROP, mc, mv, r.findings)
            if f:
                r.known.setdefault(f["key"], f["what"])
                stats["by_finding"][f["key"]] = stats["by_finding"].get(f["key"], 0) + 1
            else:
                reported += 1
                if reported <= 40:
                    r.fail_case(mc, mv)
                else:
                    stats["unreported_violations"] += 1


def equivalence_defects(obs, emits):
    """Reflexivity / symmetry / transitivity of the *observed* equal? over the node handles of a
    case, independent of the oracle.  Returns pseudo-observations for the defects found."""
    rel, feat = {}, {}
    for k, o in enumerate(obs):
        if k >= len(emits):
            break
        if o["probe"] == "equal":
            rel[(o["x"], o["y"])] = emits[k] == "#true"
            feat[(o["x"], o["y"])] = o["ft"]
        elif o["probe"] == "equal-r":
            rel[(o["y"], o["x"])] = emits[k] == "#true"
            feat[(o["y"], o["x"])] = o["ft"]
    out = []
    nodes = sorted({a for a, b in rel if (b, a) in rel})

    def pseudo(name, text, fts):
        ft = "".join(sorted(set("".join(fts))))
        return ({"probe": name, "src": text, "exp": "#true", "ft": ft, "eqv": "#true", "nev": "#false",
                 "x": 0, "y": 0}, "#false", "fn")
    for a in nodes:
        if (a, a) in rel and not rel[(a, a)]:
            out.append(pseudo("reflexive", f"(equal? h{a} h{a})", [feat[(a, a)]]))
        for b in nodes:
            if (a, b) in rel and (b, a) in rel and rel[(a, b)] != rel[(b, a)] and a < b:
                out.append(pseudo("symmetric", f"(eq? (equal? h{a} h{b}) (equal? h{b} h{a}))",
                                  [feat[(a, b)], feat[(b, a)]]))
            for c in nodes:
                if rel.get((a, b)) and rel.get((b, c)) and (a, c) in rel and not rel[(a, c)]:
                    out.append(pseudo("transitive", f"(equal? h{a} h{b}) (equal? h{b} h{c}) => (equal? h{a} h{c})",
                                      [feat[(a, b)], feat[(b, c)], feat[(a, c)]]))
    return out[:3]


# ----------------------------------------------------------------------------- driver

CHUNK = 4000


def run_equal(r, tier, seed, work, stats):
    """TLC run by TLC run, chunk by chunk (the expanded observations of a chunk are dropped after judging).
    Returns one (case, obs, head) triple usable by the self-test."""
    seen = set()
    keep = None
    for name, cfg in equal_runs(tier, seed, work):
        res = vlib.run_tlc("Equal", cfg, os.path.join(work, "eq_" + name), workers=WORKERS, timeout=1500)
        r.add_tlc(res)
        pr = probes_of(res)
        raw = res["cases"]
        res["cases"] = None
        for i in range(0, len(raw), CHUNK):
            allc = []
            for c in raw[i:i + CHUNK]:
                case, obs, head = eq_case(c, pr["probes"], pr["base"], "E")
                if case["id"] in seen:
                    continue
                seen.add(case["id"])
                allc.append((case, obs, head))
            verdicts = vlib.replay([c for c, _, _ in allc], work, jobs=12, timeout_ms=8000,
                                   name=f"equal_{name}_{i // CHUNK}")
            judge_equal(r, [(c, o, h, v) for (c, o, h), v in zip(allc, verdicts)], stats)
            if keep is None:
                for case, obs, head in allc:
                    if any(o["probe"] == "equal" and o["ft"] == "" for o in obs):
                        keep = (case, obs, head)
                        break
        del raw
    return [keep] if keep else []


# ----------------------------------------------------------------------------- Collections

def uni(t):
    """The spec writes ~ and ^ for U+03BB and U+039B (TLA+ strings are kept ASCII)."""
    return t.replace("~", "\u03bb").replace("^", "\u039b")


def coll_case(c):
    src = uni(c["src"])
    h = hashlib.sha1(src.encode()).hexdigest()[:12]
    return {"id": f"K-{h}", "fresh": False, "tag": "coll:" + c["ty"],
            "steps": [{"src": src, "class": c["class"], "emit": [uni(e) for e in c["emit"]]}],
            "meta": {"ty": c["ty"], "labs": c["labs"], "optags": c["optags"], "mode": c["mode"]}}


def class_ok(expected, got):
    if expected == "ok":
        return got == "ok"
    if expected == "err":
        return got.startswith("err:")
    if expected == "noncrash":
        return got == "ok" or got.startswith("err:")
    return False


def coll_failure(case, v):
    """None if the case agrees with the model, else (tag, why) for the first disagreement."""
    st = case["steps"][0]
    m = case["meta"]
    got = v["got"][0] if v.get("got") else {"class": "none", "emit": [], "msg": v.get("why")}
    gcls = re.sub(r"\(rc=.*\)", "", got["class"])
    emits = got.get("emit") or []
    exp = st["emit"]
    for i, e in enumerate(exp):
        if i >= len(emits):
            break
        if emits[i] != e:
            step, q = m["labs"][i].split(":", 1)
            step = int(step)
            op = "base" if step == 0 else ("final" if step == 99 else m["optags"][step - 1])
            return (f"coll|{m['ty']}|obs={q}|op={op}|ops={','.join(m['optags'])}",
                    f"emit[{i}] ({m['labs'][i]}): expected [{e}] got [{emits[i]}]")
    if gcls in ("hang", "crash", "none"):
        # the process died (no observation survives): attribute to the last operation of the sequence
        op = m["optags"][-1] if m["optags"] else "base"
        return (f"coll|{m['ty']}|class|op={op}|exp={st['class']}|got={gcls}",
                f"class: expected {st['class']} got {got['class']} (process died)")
    if len(emits) < len(exp):
        # died before all expected observations were made: the operation after emit #len(emits)
        i = len(emits)
        step = int(m["labs"][i].split(":", 1)[0])
        step = len(m["optags"]) if step == 99 else step
        op = "base" if step == 0 else m["optags"][step - 1]
        return (f"coll|{m['ty']}|class|op={op}|exp=ok|got={gcls}",
                f"class: expected a value for step {step} ({m['labs'][i]}), got {got['class']}: {got.get('msg')}")
    if len(emits) > len(exp) or not class_ok(st["class"], got["class"]):
        op = m["optags"][-1] if m["optags"] else "base"
        return (f"coll|{m['ty']}|class|op={op}|exp={st['class']}|got={gcls}",
                f"class: expected {st['class']} got {got['class']} (extra emits {emits[len(exp):]}): {got.get('msg')}")
    return None


def budget_filter(cases, findings, seed, stats):
    """Known findings that make the process hang or abort cost seconds per case: keep only a few
    (seeded) cases whose last operation is one of those (entry field `budget`)."""
    rnd = random.Random(seed)
    out = list(cases)
    for f in findings:
        b = f.get("budget")
        if not b or PROP not in f.get("properties", []):
            continue
        rx = re.compile(b["optag_regex"])
        hit = [c for c in out if c["meta"]["optags"] and rx.search(c["meta"]["optags"][-1])]
        if len(hit) > b["keep"]:
            keep = set(id(c) for c in rnd.sample(sorted(hit, key=lambda c: c["id"]), b["keep"]))
            out = [c for c in out if c not in hit or id(c) in keep]
            stats["budget_dropped"][f["key"]] = len(hit) - b["keep"]
    return out


def run_collections(r, tier, seed, work, stats):
    sub = {"SEED": seed}
    if tier != "quick":
        sub.update({"KSP": 6, "BRANCH": 5})
    cfg = cfg_variant("MC_Collections_quick.cfg", work, sub, f"{tier}_s{seed}")
    res = vlib.run_tlc("Collections", cfg, os.path.join(work, "coll"), workers=WORKERS, timeout=1200)
    r.add_tlc(res)
    cases, seen = [], set()
    for c in res["cases"]:
        k = coll_case(c)
        if k["id"] not in seen:
            seen.add(k["id"])
            cases.append(k)
    cases = budget_filter(cases, r.findings, seed, stats)
    verdicts = vlib.replay([{k: v for k, v in c.items() if k not in ("meta", "_passed")} for c in cases], work, jobs=12,
                           timeout_ms=4000, name="coll")
    reported = 0
    for c, v in zip(cases, verdicts):
        stats["coll_cases"] += 1
        stats["coll_observations"] += len(c["steps"][0]["emit"]) + 1
        bad = coll_failure(c, v)
        account(r, c, bad is None, coll_nontrivial(c))
        c["_passed"] = bad is None
        if bad is None:
            if len(stats["passing"]) < 400:
                stats["passing"].append({k: v for k, v in c.items() if k not in ("meta", "_passed")})
            continue
        tag, why = bad
        stats["coll_failing"] += 1
        mc = {"id": c["id"], "fresh": False, "tag": tag, "steps": c["steps"]}
        mv = {"pass": False, "why": why}
        grp = stats["groups"].setdefault(re.sub(r"\|ops=.*", "", tag), [0, c["steps"][0]["src"], why])
        grp[0] += 1
        f = vlib.match_finding(PROP, mc, mv, r.findings)
        if f:
            r.known.setdefault(f["key"], f["what"])
            stats["by_finding"][f["key"]] = stats["by_finding"].get(f["key"], 0) + 1
        else:
            reported += 1
            if reported <= 40:
                r.fail_case(mc, mv)
            else:
                stats["unreported_violations"] += 1
    # the collection programs that agree with the model at top level, again AS MODULE FILES (how `steel file.scm`
    # runs them: car / cdr / cons / list / vector-ref / null? ... become op codes with their own type checks,
    # and natively compiled under the JIT)
    okc = [{k: v for k, v in c.items() if k not in ("meta", "_passed")} for c in cases
           if c.get("_passed") and c["steps"][0]["class"] == "ok"]
    mroot = os.path.join(work, "modules")
    import shutil
    shutil.rmtree(mroot, ignore_errors=True)
    stats["coll_module_cases"] = 0
    for ename, env in (("jit", None), ("nojit", {"STEEL_JIT": "false"})):
        cs, vs = vlib.replay_as_modules([dict(c, id=c["id"] + "/" + ename) for c in okc], work, mroot, env_extra=env,
                                        name="coll.mod." + ename)
        stats["coll_module_cases"] += len(cs)
        byid = {c["id"]: c for c in cases}
        for mc_, v in zip(cs, vs):
            orig = byid[mc_["id"].split("/")[0]]
            bad = None if v["pass"] else coll_failure(orig, v)
            account(r, mc_, bad is None, True)
            if bad is None:
                continue
            # judged exactly like the top-level run (same observation tags), so that a known finding whose
            # symptom varies from run to run (hashing of a hash map used as a key) is recognised here too
            tag, why = bad
            jc = {"id": mc_["id"], "fresh": False, "tag": tag + "|module", "steps": orig["steps"], "env": env,
                  "module_file": mc_.get("module_file"), "module_src": mc_.get("module_src")}
            jv = {"pass": False, "why": why}
            f = vlib.match_finding(PROP, jc, jv, r.findings)
            if f:
                r.known.setdefault(f["key"], f["what"])
                stats["by_finding"][f["key"]] = stats["by_finding"].get(f["key"], 0) + 1
            else:
                r.fail_case(jc, jv)
    return cases


def new_stats():
    return {"observations": 0, "mismatches": 0, "failing_cases": 0, "passing": [], "by_finding": {},
            "unreported_violations": 0, "groups": {}, "coll_cases": 0, "coll_observations": 0,
            "coll_failing": 0, "budget_dropped": {}}


def account(r, case, passed, nontrivial):
    """Evidence bookkeeping for one replayed case (vlib.Result.add_cases without its verdict policy:
    failures of this check are judged per observation, see judge_equal / coll_failure)."""
    r.cov["evaluations"] += 1
    if passed:
        r.cov["traces_validated_against_impl"] += 1
    if nontrivial:
        h = hashlib.sha1(json.dumps(case.get("steps"), sort_keys=True).encode()).hexdigest()
        r._nontrivial.add(h)
    r.cov["distinct_nontrivial"] = len(r._nontrivial)


def eq_nontrivial(obs):
    """An Equal case is non-trivial when among its pairs of DIFFERENT handles both answers occur:
    some pair is structurally equal and some pair is not."""
    t = any(o["probe"] == "equal" and o["x"] != o["y"] and o["exp"] == "#true" for o in obs)
    f = any(o["probe"] == "equal" and o["exp"] == "#false" for o in obs)
    return t and f


def coll_nontrivial(case):
    """A Collections case is non-trivial when it has >= 2 operations, or ends outside the domain of
    its last operation (expected error / unspecified)."""
    return len(case["meta"]["optags"]) >= 2 or case["steps"][0]["class"] != "ok"


def selftest(r, eq_all, coll_all, work):
    """Mutant oracle: one deliberately wrong expectation per half must be reported by the replayer
    and by this module's judges, and must not be swallowed by a known finding."""
    # Equal: flip the expectation of a feature-free equal? observation
    done = False
    for case, obs, head in eq_all:
        for o in obs:
            if o["probe"] == "equal" and o["ft"] == "" and o["exp"] in ("#true", "#false"):
                wrong = dict(o, exp="#false" if o["exp"] == "#true" else "#true")
                mc, _ = micro_case(case, head, wrong, "?", "?")
                mc["id"] = "SELFTEST-E"
                v = vlib.replay([mc], work, jobs=1, name="selftest_e")[0]
                got = v["got"][-1]["emit"][0] if v["got"] and v["got"][-1]["emit"] else None
                d = direction(wrong, got)
                mc2, mv2 = micro_case(case, head, wrong, got, d)
                if v["pass"] or d == "ok" or vlib.match_finding(PROP, mc2, mv2, r.findings):
                    raise vlib.ToolError(f"self-test: a wrong equal? expectation was not reported ({mc['steps'][-1]['src']})")
                done = True
                break
        if done:
            break
    if eq_all and not done:
        raise vlib.ToolError("self-test: no feature-free equal? observation to mutate")
    # Collections: corrupt the last expected observation of a passing ok-case
    for c in coll_all:
        st = c["steps"][0]
        if st["class"] == "ok" and st["emit"] and c.get("_passed"):
            m = json.loads(json.dumps({k: v for k, v in c.items() if k != "_passed"}))
            m["id"] = "SELFTEST-K"
            m["steps"][0]["emit"][-1] = m["steps"][0]["emit"][-1] + "x"
            v = vlib.replay([{k: x for k, x in m.items() if k != "meta"}], work, jobs=1, name="selftest_k")[0]
            bad = coll_failure(m, v)
            if v["pass"] or bad is None or vlib.match_finding(
                    PROP, {"id": "x", "tag": bad[0], "steps": m["steps"]}, {"why": bad[1]}, r.findings):
                raise vlib.ToolError("self-test: a wrong collection expectation was not reported")
            return
    if coll_all:
        raise vlib.ToolError("self-test: no passing collection case to mutate")


def run(tier, seed):
    work = os.path.join(vlib.WORK, PROP)
    r = vlib.Result(PROP, tier, seed)
    stats = new_stats()
    only = os.environ.get("C11_ONLY")
    eq_all = run_equal(r, tier, seed, work, stats) if only in (None, "", "equal") else []
    coll_all = run_collections(r, tier, seed, work, stats) if only in (None, "", "coll") else []
    selftest(r, eq_all, coll_all, work)
    rnd = random.Random(seed)
    for c in rnd.sample(stats["passing"], min(6, len(stats["passing"]))):
        r.cov["samples"].append({"id": c["id"], "tag": c["tag"],
                                 "src": c["steps"][-1]["src"][:600], "emit": c["steps"][-1].get("emit", [])[:12]})
    r.cov["rule"] = ("Equal.tla: every heap (DAG with sharing) of the listed families, every ordered pair of its nodes / "
                     "unshared copies / one-leaf mutants, each probed with equal? both ways, eqv?/eq? where R7RS "
                     "determines them and the hash battery; non-trivial = among pairs of different handles both a "
                     "structurally equal and an unequal pair occur.  Collections.tla: every sequence of <= KEX "
                     "operations and a seeded sparse sub-tree of longer ones per collection type; non-trivial = >= 2 "
                     "operations or ending outside the last operation's domain.")
    r.cov["exhaustive"] = True
    r.assumptions.append("hash probes observe one hasher instance per process; Steel's hash-map iteration order is "
                         "treated as unspecified and never observed")
    summary = {k: v for k, v in stats.items() if k not in ("passing", "groups")}
    r.notes.append(summary)
    vlib.log(json.dumps(summary))
    if os.environ.get("C11_DEBUG"):
        with open(os.path.join(work, "groups.json"), "w") as f:
            json.dump(stats["groups"], f, indent=1)
    return r.finish()


def replay_file(path):
    return vlib.replay_file(PROP, path)
