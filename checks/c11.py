"""C11 - equal? is structural, hashing agrees with it, collections behave as their models.

Equal.tla       heaps (DAGs with sharing) x pairs of values: equal?/eqv?/eq?/hash probes
Collections.tla operation sequences on lists, vectors, hash maps/sets, strings, byte vectors

TLC enumerates and computes every expectation; this module only renders the probe
templates the spec prints (PROBES line), replays, compares observation by observation and
attributes every mismatch either to a known finding (by the *feature* the spec computed for
the pair / by the operation that was running) or reports it as a VIOLATION.
"""
import hashlib
import json
import os
import random
import re

import vlib

PROP = "C11"
WORKERS = 8

# ----------------------------------------------------------------------------- configs

def equal_runs(tier, seed, work):
    """(name, cfg) of the TLC runs of Equal.tla; the seed selects the sparse sub-tree of family "sim"."""
    q = cfg_variant("MC_Equal_quick.cfg", work, {"SEED": seed, "BRANCH": 4}, f"s{seed}")
    if tier == "quick":
        return [("quick", q)]
    t = cfg_variant("MC_Equal_thorough.cfg", work, {"SEED": seed, "BRANCH": 7}, f"s{seed}")
    return [("quick", q), ("deep", t)]


def cfg_variant(cfg, work, subst, suffix):
    """A copy of spec/<cfg> with some CONSTANTS replaced (thorough tier: larger N)."""
    text = open(os.path.join(vlib.SPEC, cfg)).read()
    for k, v in subst.items():
        text, n = re.subn(rf"(?m)^(\s*{k}\s*=\s*).*$", rf"\g<1>{v}", text)
        if n != 1:
            raise vlib.ToolError(f"constant {k} not found in {cfg}")
    os.makedirs(work, exist_ok=True)
    path = os.path.join(work, cfg.replace(".cfg", f"_{suffix}.cfg"))
    with open(path, "w") as f:
        f.write(text)
    return path


def probes_of(res):
    with open(res["out"], errors="replace") as f:
        for line in f:
            if line.startswith('<<"PROBES", '):
                inner = json.loads(line[len('<<"PROBES", '):].rstrip().rstrip(">"))
                return json.loads(inner)
    raise vlib.ToolError(f"no PROBES line in {res['out']}")


# ----------------------------------------------------------------------------- Equal: rendering

def subst(tpl, x, y):
    return tpl.replace("$x", x).replace("$y", y).replace("$b", "b0")


def eq_observations(c, probes):
    """Expand one TLC case into the list of observations (dicts) in emission order."""
    obs = []
    hs = c["handles"]
    for ps in c["pairs"]:
        xi, yi, same, hashed, eqv, eqp, ft = ps.split(",")
        x, y = hs[int(xi) - 1], hs[int(yi) - 1]
        for p in probes:
            g = p["grp"]
            if g == "hash" and not (hashed == "2" or (hashed == "1" and p["name"] == "tryget")):
                continue
            if g == "eqv":
                if eqv == "-":
                    continue
                exp = p["eq"] if eqv == "t" else p["ne"]
            elif g == "eqp":
                if eqp == "-":
                    continue
                exp = p["eq"] if eqp == "t" else p["ne"]
            else:
                exp = p["eq"] if same == "1" else p["ne"]
            obs.append({"probe": p["name"], "src": subst(p["tpl"], x, y), "exp": exp, "ft": ft,
                        "eqv": p["eq"], "nev": p["ne"], "x": int(xi), "y": int(yi)})
    return obs


def eq_case(c, probes, base, prefix):
    obs = eq_observations(c, probes)
    body = " ".join(f"(emit {o['src']})" for o in obs)
    head = f"(let* ({c['lets']}(b0 {base})) "
    steps = []
    if c["pre"]:
        steps.append({"src": c["pre"], "class": "ok"})
    steps.append({"src": head + body + ")", "class": "ok", "emit": [o["exp"] for o in obs]})
    h = hashlib.sha1(json.dumps([s["src"] for s in steps]).encode()).hexdigest()[:12]
    case = {"id": f"{prefix}-{h}", "fresh": False, "tag": "equal:" + c["fam"], "steps": steps}
    return case, obs, head


def direction(o, got):
    if got == o["exp"]:
        return "ok"
    if o["exp"] == o["nev"] and got == o["eqv"]:
        return "fp"      # Steel says "equal / found", the model says different
    if o["exp"] == o["eqv"] and got == o["nev"]:
        return "fn"      # Steel says "different / not found", the model says equal
    return "other"


def micro_case(case, head, o, got, d):
    """A one-observation replayable case for a failing observation."""
    steps = [s for s in case["steps"][:-1]]
    steps.append({"src": head + f"(emit {o['src']}))", "class": "ok", "emit": [o["exp"]]})
    h = hashlib.sha1(json.dumps([s["src"] for s in steps]).encode()).hexdigest()[:12]
    tag = f"equal|probe={o['probe']}|ft={o['ft']}|dir={d}"
    return ({"id": f"E1-{h}", "fresh": False, "tag": tag, "steps": steps},
            {"pass": False, "why": f"emit: expected [{o['exp']}] got [{got}] for {o['src']}"})


def judge_equal(r, pairs, stats):
    """pairs: [(case, obs, head, verdict)].  Compares observation by observation."""
    reported = 0
    for case, obs, head, v in pairs:
        got_step = v["got"][len(case["steps"]) - 1] if len(v.get("got", [])) >= len(case["steps"]) else None
        emits = got_step["emit"] if got_step else []
        cls = got_step["class"] if got_step else (v["got"][-1]["class"] if v.get("got") else "none")
        stats["observations"] += len(obs)
        bad = []
        for k, o in enumerate(obs):
            if k < len(emits):
                d = direction(o, emits[k])
                if d != "ok":
                    bad.append((o, emits[k], d))
            else:
                # the step died here (error / panic / hang): attribute to the observation running
                bad.append((o, f"<{cls}: {(got_step or {}).get('msg') or v.get('why', '')}>"[:160], "other"))
                break
        # oracle-free: the observed equal? relation on the heap nodes is an equivalence
        bad += equivalence_defects(obs, emits)
        if not bad:
            stats["passing"].append(case)
            continue
        stats["failing_cases"] += 1
        for o, got, d in bad:
            stats["mismatches"] += 1
            mc, mv = micro_case(case, head, o, got, d)
            grp = stats["groups"].setdefault(mc["tag"], [0, mc["steps"][-1]["src"], mv["why"]])
            grp[0] += 1
            f = vlib.match_finding(PROP, mc, mv, r.findings)
            if f:
                r.known.setdefault(f["key"], f["what"])
                stats["by_finding"][f["key"]] = stats["by_finding"].get(f["key"], 0) + 1
            else:
                reported += 1
                if reported <= 40:
                    r.fail_case(mc, mv)
                else:
                    stats["unreported_violations"] += 1


def equivalence_defects(obs, emits):
    """Reflexivity / symmetry / transitivity of the *observed* equal? over the node handles of a
    case, independent of the oracle.  Returns pseudo-observations for the defects found."""
    rel, feat = {}, {}
    for k, o in enumerate(obs):
        if k >= len(emits):
            break
        if o["probe"] == "equal":
            rel[(o["x"], o["y"])] = emits[k] == "#true"
            feat[(o["x"], o["y"])] = o["ft"]
        elif o["probe"] == "equal-r":
            rel[(o["y"], o["x"])] = emits[k] == "#true"
            feat[(o["y"], o["x"])] = o["ft"]
    out = []
    nodes = sorted({a for a, b in rel if (b, a) in rel})

    def pseudo(name, text, fts):
        ft = "".join(sorted(set("".join(fts))))
        return ({"probe": name, "src": text, "exp": "#true", "ft": ft, "eqv": "#true", "nev": "#false",
                 "x": 0, "y": 0}, "#false", "fn")
    for a in nodes:
        if (a, a) in rel and not rel[(a, a)]:
            out.append(pseudo("reflexive", f"(equal? h{a} h{a})", [feat[(a, a)]]))
        for b in nodes:
            if (a, b) in rel and (b, a) in rel and rel[(a, b)] != rel[(b, a)] and a < b:
                out.append(pseudo("symmetric", f"(eq? (equal? h{a} h{b}) (equal? h{b} h{a}))",
                                  [feat[(a, b)], feat[(b, a)]]))
            for c in nodes:
                if rel.get((a, b)) and rel.get((b, c)) and (a, c) in rel and not rel[(a, c)]:
                    out.append(pseudo("transitive", f"(equal? h{a} h{b}) (equal? h{b} h{c}) => (equal? h{a} h{c})",
                                      [feat[(a, b)], feat[(b, c)], feat[(a, c)]]))
    return out[:3]


# ----------------------------------------------------------------------------- driver

def run_equal(r, tier, seed, work, stats):
    runs = []
    for name, cfg in equal_runs(tier, seed, work):
        runs.append((name, vlib.run_tlc("Equal", cfg, os.path.join(work, "eq_" + name), workers=WORKERS,
                                        timeout=1200)))
    allc = []
    seen = set()
    for name, res in runs:
        r.add_tlc(res)
        pr = probes_of(res)
        for c in res["cases"]:
            case, obs, head = eq_case(c, pr["probes"], pr["base"], "E")
            if case["id"] in seen:
                continue
            seen.add(case["id"])
            allc.append((case, obs, head))
    verdicts = vlib.replay([c for c, _, _ in allc], work, jobs=12, timeout_ms=8000, name="equal")
    judge_equal(r, [(c, o, h, v) for (c, o, h), v in zip(allc, verdicts)], stats)
    return allc


def new_stats():
    return {"observations": 0, "mismatches": 0, "failing_cases": 0, "passing": [], "by_finding": {},
            "unreported_violations": 0, "groups": {}}


def run(tier, seed):
    work = os.path.join(vlib.WORK, PROP)
    r = vlib.Result(PROP, tier, seed)
    stats = new_stats()
    run_equal(r, tier, seed, work, stats)
    r.notes.append({k: v for k, v in stats.items() if k not in ("passing", "groups")})
    vlib.log(json.dumps({k: v for k, v in stats.items() if k not in ("passing", "groups")}))
    if os.environ.get("C11_DEBUG"):
        with open(os.path.join(work, "groups.json"), "w") as f:
            json.dump(stats["groups"], f, indent=1)
    return r.finish()


def replay_file(path):
    return vlib.replay_file(PROP, path)
