"""Shared machinery of C15 / C16 / C17: Safepoint.tla model checking, vmtrace recording of
the real VM, trace validation with Trace_Safepoint.tla."""
import json
import os
import re
import subprocess
from concurrent.futures import ThreadPoolExecutor

import vlib

VMTRACE = os.path.join(vlib.BIN, "vmtrace")

PRELUDE = """
(define (work n) (let loop ([i 0] [acc 0]) (if (< i n) (loop (+ i 1) (+ acc (vector-length (vector i)))) acc)))
(define (churn n k) (let loop ([i 0] [acc '()]) (if (< i n) (begin (when (= 0 (modulo i k)) (#%gc-collect)) (loop (+ i 1) (cons (box i) acc))) (length acc))))
(define (spin n) (let loop ([i 0]) (if (< i n) (loop (+ i 1)) i)))
(define g 0)
(define (setter n) (let loop ([i 0]) (when (< i n) (set! g i) (loop (+ i 1)))))
(define (definer n) (let loop ([i 0]) (when (< i n) (eval `(define ,(string->symbol (string-append "dyn-" (number->string i))) ,i)) (loop (+ i 1)))))
"""

# ---- directed scenarios: one per named deviation of Safepoint.tla (window widened by barriers)
DIRECTED = {
    "exit_race": {
        "main": "(define t1 (spawn-native-thread (lambda () (work 60)))) (let loop ([i 0]) (when (< i 3) (#%gc-collect) (loop (+ i 1)))) (thread-join! t1)",
        "barriers": [
            {"hold": {"ev": "SP_RETRACT", "who": "T1"}, "until": {"ev": "SCAN_BEGIN", "tgt": "T1"}, "timeout_ms": 400, "max": 4},
            {"hold": {"ev": "SCAN_END", "who": "T0", "tgt": "T1"}, "until": {"ev": "DISPATCH", "who": "T1"}, "timeout_ms": 400, "max": 4}],
    },
    "late_register": {
        "prelude": "(define to2 (channels/new)) (define from2 (channels/new))",
        "main": "(define t2 (spawn-native-thread (lambda () (channel/recv (channels-receiver to2)) (#%gc-collect) (channel/send (channels-sender from2) 1) 'ok))) "
                "(define t1 (spawn-native-thread (lambda () (let ([b (box 'v0)]) (channel/send (channels-sender to2) 1) (channel/recv (channels-receiver from2)) (unbox b))))) "
                "(list (thread-join! t1) (thread-join! t2))",
        "barriers": [{"hold": {"ev": "REGISTERING", "who": "T0"}, "until": {"ev": "STW_END", "who": "T1"}, "timeout_ms": 2000, "skip": 1, "max": 1}],
    },
    "guard_dropped": {
        "main": "(define t1 (spawn-native-thread (lambda () (setter 20)))) (define t2 (spawn-native-thread (lambda () (setter 20)))) (thread-join! t1) (thread-join! t2)",
    },
    "irq_clobbered": {
        "main": "(churn 200 10)",
        "irq": {"after": {"ev": "CTRL_PAUSE", "tgt": "T0", "n": 2}},
        "barriers": [{"hold": {"ev": "CTRL_RESUME", "who": "T0", "tgt": "T0"}, "until": {"ev": "CTRL_INTERRUPT"}, "timeout_ms": 1000, "max": 1}],
    },
    "poll_loop_ignores_irq": {
        "main": "(define t1 (spawn-native-thread (lambda () (churn 400 20)))) (spin 30000) (thread-join! t1)",
        "irq": {"after": {"ev": "CTRL_RESUME", "who": "T1", "tgt": "T0", "n": 2}},
    },
    # a spawned thread finishes while a collector is already waiting for it to publish its context: the
    # collector must notice the exit (the exit is held until the collector has announced that it waits)
    "exit_during_wait": {
        "main": "(define ch (channels/new)) (define t1 (spawn-native-thread (lambda () (channel/recv (channels-receiver ch)) 'done))) "
                "(channel/send (channels-sender ch) 1) (spin 300) (#%gc-collect) (#%gc-collect) (thread-join! t1)",
        "barriers": [{"hold": {"ev": "THREAD_EXIT", "who": "T1"}, "until": {"ev": "ENUM_WAIT", "tgt": "T1"}, "timeout_ms": 5000, "max": 1}],
    },
    # a thread that stays outside any safepoint for a long time (held at a dispatch point for 500 ms) while
    # another thread assigns a global: the assignment must wait for it - a stopper that gives up leaves the
    # thread on the old global table (C15b), and the thread's next define / set! undoes the assignment for all
    "slow_during_set": {
        "main": "(define t1 (spawn-native-thread (lambda () (spin 3000) g))) (spin 400) (set! g 5) (list (thread-join! t1) g)",
        "barriers": [{"hold": {"ev": "DISPATCH", "who": "T1"}, "until": {"ev": "STW_END", "who": "T0"}, "timeout_ms": 500, "skip": 40, "max": 1}],
    },
    "idle_engine": {
        "main": "(define t1 (spawn-native-thread (lambda () (churn 2000 50)))) 'returned",
        "await_threads": True,
    },
}

# ---- free-running stress scenarios (seeded perturbation at hook points)
STRESS = [
    ("gc-vs-prims", "(define t1 (spawn-native-thread (lambda () (work 80)))) (define t2 (spawn-native-thread (lambda () (work 80)))) (churn 60 10) (list (thread-join! t1) (thread-join! t2))"),
    ("alloc-all", "(define t1 (spawn-native-thread (lambda () (churn 80 16)))) (define t2 (spawn-native-thread (lambda () (churn 80 16)))) (churn 80 16) (list (thread-join! t1) (thread-join! t2))"),
    ("set-vs-gc", "(define t1 (spawn-native-thread (lambda () (setter 15)))) (define t2 (spawn-native-thread (lambda () (churn 60 12)))) (setter 10) (thread-join! t1) (thread-join! t2)"),
    ("spawn-in-thread", "(define t1 (spawn-native-thread (lambda () (let ([u (spawn-native-thread (lambda () (work 30)))]) (churn 30 10) (thread-join! u))))) (churn 30 10) (thread-join! t1)"),
    ("channels", "(define ch (channels/new)) (define t1 (spawn-native-thread (lambda () (let loop ([i 0] [acc 0]) (if (< i 20) (loop (+ i 1) (+ acc (channel/recv (channels-receiver ch)))) acc))))) (let loop ([i 0]) (when (< i 20) (channel/send (channels-sender ch) i) (when (= 0 (modulo i 5)) (#%gc-collect)) (loop (+ i 1)))) (thread-join! t1)"),
    ("define-vs-threads", "(define t1 (spawn-native-thread (lambda () (work 60)))) (define t2 (spawn-native-thread (lambda () (churn 40 10)))) (definer 8) (thread-join! t1) (thread-join! t2)"),
]


def record(sc, workdir, jit=False, timeout=120):
    """run one scenario on the real VM; returns (end-record, trace path)"""
    os.makedirs(workdir, exist_ok=True)
    path = os.path.join(workdir, f"{sc['id']}.trace.ndjson")
    env = dict(os.environ)
    env.pop("STEEL_JIT", None)
    if not jit:
        env["STEEL_JIT"] = "false"
    full = dict(sc)
    full.setdefault("prelude", PRELUDE)
    full.setdefault("watchdog_ms", 6000)
    try:
        with open(path, "w") as out:
            p = subprocess.run([VMTRACE, json.dumps(full)], stdout=out, stderr=subprocess.PIPE, env=env, timeout=timeout)
    except subprocess.TimeoutExpired:
        return {"end": "harness-timeout"}, path
    last = None
    with open(path, "rb") as f:
        for line in f:
            if line.startswith(b'{"'):
                last = line
    try:
        end = json.loads(last) if last else {"end": f"no-output rc={p.returncode}"}
    except Exception:
        end = {"end": "unparsable"}
    if "end" not in end:
        end = {"end": f"crashed rc={p.returncode}"}
    return end, path


def validate(path, workdir, name):
    """TLC trace validation; returns dict(accepted, flags=[(tag, index)], violated, events)"""
    meta = os.path.join(workdir, f"meta-{name}")
    env = dict(os.environ, TRACE=path, JAVA_TOOL_OPTIONS="-Xss1g -Dtlc2.tool.queue.IStateQueue=StateDeque")
    cmd = ["java", "-XX:+UseParallelGC", "-Xmx2g", "-cp", vlib.TLA_JAR, "tlc2.TLC", "-workers", "1", "-metadir", meta,
           "-cleanup", "-noGenerateSpecTE", "-config", os.path.join(vlib.SPEC, "Trace_Safepoint.cfg"),
           os.path.join(vlib.SPEC, "Trace_Safepoint.tla")]
    try:
        p = subprocess.run(cmd, cwd=vlib.SPEC, env=env, capture_output=True, text=True, timeout=600)
    except subprocess.TimeoutExpired:
        raise vlib.ToolError(f"trace validation timed out on {path}")
    out = p.stdout
    import shutil
    shutil.rmtree(meta, ignore_errors=True)
    m = re.search(r"(\d+) states generated, (\d+) distinct", out)
    states = int(m.group(2)) if m else 0
    flags = []
    bads = re.findall(r"/\\ bad = (\{.*?\})\n", out, re.S)
    if bads:
        flags = [(t, int(i)) for t, i in re.findall(r'<<"([^"]+)", (\d+)>>', bads[-1])]
    violated = re.search(r"Invariant (\w+) is violated", out)
    rejected = "TRACE-REJECTED" in out and not violated
    if "Error:" in out and not violated and not rejected and "Postcondition" not in out:
        raise vlib.ToolError(f"TLC failed on trace {path}:\n{out[-1500:]}")
    return {"accepted": not violated and not rejected, "flags": flags, "violated": violated.group(1) if violated else None,
            "rejected": rejected, "states": states}


def validate_irq_window(path, workdir, name, radius=3000):
    """Long traces (a loop that kept running after an interrupt): validate the window around the
    CTRL_INTERRUPT event only.  Returns validate()'s dict or None when there is no such event."""
    lines = [l for l in open(path, errors="replace") if l.startswith('{"') and '"ev"' in l]
    idx = next((i for i, l in enumerate(lines) if '"CTRL_INTERRUPT"' in l), None)
    if idx is None:
        return None
    lo = max(0, idx - radius)
    win = os.path.join(workdir, f"{name}.window.ndjson")
    with open(win, "w") as f:
        f.writelines(lines[lo: idx + radius])
    return validate(win, workdir, name + "-win")


# which named deviation explains a flag / stall (signature = flag tag + event kind)
SIGNATURES = {
    "C15a-retract-while-scanned": "exit_race",
    "C15a-scan-of-unpublished-thread": "exit_race",
    "C15a-write-to-unpublished-thread": "exit_race",
    "C15a-runs-while-scanned": "exit_race",
    "C17-interrupt-overwritten": "irq_clobbered",
    "C15-unregistered-thread-runs-during-stop": "late_register",
    "C15-access-to-thread-registered-during-stop": "late_register",
}


def model_check(r, work, tier, cex_defects):
    """design level: repaired protocol exhaustively; each named deviation must yield a counterexample"""
    cfg = "MC_Safepoint_fixed_quick.cfg" if tier == "quick" else "MC_Safepoint_fixed.cfg"
    res = vlib.run_tlc("Safepoint", cfg, work, workers=8, timeout=1500, allow_violation=True)
    r.add_tlc(res)
    if res["violation"]:
        r.violation(f"repaired Safepoint protocol violates {res.get('violated') or 'deadlock freedom'}",
                    {"id": "model-fixed", "tlc": res["violation"][:3000]})
    found = {}
    for d in cex_defects:
        res = vlib.run_tlc("Safepoint", f"MC_Safepoint_cex_{d}.cfg", work, workers=8, timeout=900, allow_violation=True)
        r.add_tlc(res)
        v = res["violation"] or ""
        found[d] = res.get("violated") or ("deadlock" if "Deadlock" in v else None)
        if not found[d]:
            r.notes.append(f"model: no counterexample for {d}")
    return found


def run_directed(names, work):
    out = {}
    for n in names:
        sc = dict(DIRECTED[n], id="directed-" + n)
        end, path = record(sc, work)
        # very long traces (a loop that keeps running) are judged by their outcome only
        val = (validate(path, work, n) if 0 < end.get("events", 0) <= 60000
               else {"accepted": True, "flags": [], "violated": None, "rejected": False, "states": 0, "skipped": True})
        out[n] = (end, val, path)
    return out


def run_stress(work, seed, rounds, jit_too=False):
    jobs = []
    for k in range(rounds):
        for name, main in STRESS:
            for jit in ([False, True] if jit_too else [False]):
                jobs.append({"id": f"stress-{name}-{seed}-{k}{'-jit' if jit else ''}", "main": main, "_jit": jit,
                             "perturb": {"seed": seed * 1000 + k, "prob_pct": 12, "max_us": 300}})

    def one(sc):
        jit = sc.pop("_jit")
        end, path = record(sc, work, jit=jit)
        val = validate(path, work, sc["id"]) if 0 < end.get("events", 0) <= 60000 else None
        return sc, end, val, path
    with ThreadPoolExecutor(max_workers=6) as ex:
        return list(ex.map(one, jobs))
