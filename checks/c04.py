"""C04 - the collector never reclaims or overwrites reachable mutable storage (Heap.tla,
HeapCases.tla).  Shared with C19 (heapcommon)."""
import glob
import hashlib
import json
import os
import random

import vlib

PROP = "C04"

# ---------------------------------------------------------------- rendering of HeapCases scenarios
OBJ = {
    # kind: (make(v), read(x), write(x, v))
    "box": (lambda v: f"(box '{v})", lambda x: f"(unbox {x})", lambda x, v: f"(set-box! {x} '{v})"),
    "mvector": (lambda v: f"(mutable-vector '{v} 0)", lambda x: f"(vector-ref {x} 0)", lambda x, v: f"(vector-set! {x} 0 '{v})"),
    "mstruct": (lambda v: f"(vcell@@ '{v})", lambda x: f"(vcell@@-v {x})", lambda x, v: f"(set-vcell@@-v! {x} '{v})"),
    "setvar": (lambda v: f"(let ([x '{v}]) (lambda m (if (null? m) x (set! x (car m)))))", lambda x: f"({x})", lambda x, v: f"({x} '{v})"),
}
NEST = {
    "direct": (lambda o: o, lambda h: h),
    "inner": (lambda o: f"(box {o})", lambda h: f"(unbox {h})"),
    "cycle": (lambda o: f"(let ([p (box #f)]) (let ([q (box p)]) (set-box! p (list {o} q)) q))", lambda h: f"(car (unbox (unbox {h})))"),
}
# holders through which the object is NOT accessible while the events run (only gc/garbage events)
OPAQUE = {"closure-captures-closure", "thread-tls", "closure-global", "closure-local", "argtemp", "handler-cweh", "handler-with", "wind-after",
          "continuation", "thread-stack", "host-rooted", "closure-in-box"}

PRELUDE = ("(struct vcell@@ (v) #:mutable) (struct wrap@@ (f)) "
           "(define (garbage@@ n) (let loop ([i 0] [acc 0]) (if (< i n) (loop (+ i 1) (cons (box i) (mutable-vector i))) 'done)))")


def render(c, prefix, garbage_n):
    holder, obj, nest, events, reads = c["holder"], c["obj"], c["nest"], c["events"], c["reads"]
    if holder in OPAQUE and any(e in ("write", "read") for e in events):
        return None
    if holder in ("container-hashset", "container-hash-key") and nest == "cycle":
        return None      # hashing a cyclic value is C18's subject (it overflows the native stack)
    mk, rd, wr = OBJ[obj]
    wrap, path = NEST[nest]
    W = wrap(mk("v0"))

    def ev(access):
        out, k = [], 0
        for e in events:
            if e == "gc":
                out.append("(#%gc-collect)")
            elif e == "garbage":
                out.append(f"(garbage@@ {garbage_n})")
            elif e == "write":
                k += 1
                out.append(wr(path(access), f"v{k}"))
            elif e == "read":
                out.append(f"(emit {rd(path(access))})")
        return " ".join(out)

    exp = [f"v{r}" for r in reads]
    steps = [{"src": PRELUDE, "class": "ok"}]
    S = lambda src, emit=None: steps.append({"src": src, "class": "ok", **({"emit": emit} if emit is not None else {})})
    if holder == "global":
        S(f"(define h@@ {W})")
        S(ev("h@@") + f" (emit {rd(path('h@@'))})", exp)
    elif holder == "local":
        S(f"(let ([h {W}]) {ev('h')} (emit {rd(path('h'))}))", exp)
    elif holder == "closure-global":
        S(f"(define f@@ (let ([h {W}]) (lambda () {rd(path('h'))})))")
        S(ev("") + " (emit (f@@))", exp)
    elif holder == "closure-local":
        S(f"(let ([f (let ([h {W}]) (lambda () {rd(path('h'))}))]) {ev('')} (emit (f)))", exp)
    elif holder == "argtemp":
        S(f"(define (g@@ a x) {rd(path('a'))})")
        S(f"(emit (g@@ {W} (begin {ev('')} 2)))", exp)
    elif holder == "handler-cweh":
        S(f"(emit (call-with-exception-handler (let ([h {W}]) (lambda (e) {rd(path('h'))})) (lambda () {ev('')} (car 1))))", exp)
    elif holder == "handler-with":
        S(f"(emit (with-handler (let ([h {W}]) (lambda (e) {rd(path('h'))})) (begin {ev('')} (car 1))))", exp)
    elif holder == "wind-after":
        S(f"(dynamic-wind (lambda () 1) (lambda () {ev('')} 2) (let ([h {W}]) (lambda () (emit {rd(path('h'))}))))", exp)
    elif holder == "continuation":
        S("(define k@@ #f)")
        S(f"(define (mk@@) (let ([h {W}]) (let ([n (call/cc (lambda (c) (set! k@@ c) 0))]) (if (= n 0) 'first {rd(path('h'))}))))")
        S(f"(define (run@@) (let ([r (mk@@)]) (if (eq? r 'first) (begin {ev('')} (k@@ 1)) (emit r))))")
        S("(run@@)", exp)
    elif holder == "container-list":
        S(f"(define h@@ (list 1 {W} 3))")
        S(ev("(cadr h@@)") + f" (emit {rd(path('(cadr h@@)'))})", exp)
    elif holder == "container-hash":
        S(f"(define h@@ (hash 'k {W}))")
        S(ev("(hash-ref h@@ 'k)") + f" (emit {rd(path('(hash-ref h@@ (quote k))'))})", exp)
    elif holder == "container-vector":
        S(f"(define h@@ (vector 1 {W}))")
        S(ev("(vector-ref h@@ 1)") + f" (emit {rd(path('(vector-ref h@@ 1)'))})", exp)
    elif holder == "container-pair":
        S(f"(define h@@ (cons 1 {W}))")
        S(ev("(cdr h@@)") + f" (emit {rd(path('(cdr h@@)'))})", exp)
    elif holder == "container-hashset":
        S(f"(define h@@ (hashset {W}))")
        S(ev("(car (hashset->list h@@))") + f" (emit {rd(path('(car (hashset->list h@@))'))})", exp)
    elif holder == "container-hash-key":
        S(f"(define h@@ (hash {W} 'v))")
        S(ev("(car (hash-keys->list h@@))") + f" (emit {rd(path('(car (hash-keys->list h@@))'))})", exp)
    elif holder == "container-mvector":
        S(f"(define h@@ (mutable-vector 1 {W}))")
        S(ev("(vector-ref h@@ 1)") + f" (emit {rd(path('(vector-ref h@@ 1)'))})", exp)
    elif holder == "container-mstruct":
        S(f"(define h@@ (vcell@@ {W}))")
        S(ev("(vcell@@-v h@@)") + f" (emit {rd(path('(vcell@@-v h@@)'))})", exp)
    elif holder == "container-nested":
        S(f"(define h@@ (list 0 (vector (hash 'k (cons 1 {W})))))")
        S(ev("(cdr (hash-ref (vector-ref (cadr h@@) 0) 'k))") + f" (emit {rd(path('(cdr (hash-ref (vector-ref (cadr h@@) 0) (quote k)))'))})", exp)
    elif holder == "closure-captures-closure":
        S(f"(define f@@ (let ([inner (let ([h {W}]) (lambda () {rd(path('h'))}))]) (lambda () (inner))))")
        S(ev("") + " (emit (f@@))", exp)
    elif holder == "param":
        S("(define p@@ (make-parameter #f))")
        S(f"(parameterize ([p@@ {W}]) {ev('(p@@)')} (emit {rd(path('(p@@)'))}))", exp)
    elif holder == "thread-stack":
        S("(define go@@ (channels/new)) (define ready@@ (channels/new))")
        S(f"(define t@@ (spawn-native-thread (lambda () (let ([h {W}]) (channel/send (channels-sender ready@@) 1) "
          f"(channel/recv (channels-receiver go@@)) {rd(path('h'))}))))")
        S(f"(channel/recv (channels-receiver ready@@)) {ev('')} (channel/send (channels-sender go@@) 1) (emit (thread-join! t@@))", exp)
    elif holder == "tls":
        # thread-local storage slot of the evaluating thread
        S(f"(define slot@@ (make-tls #f)) (set-tls! slot@@ {W})")
        S(ev("(get-tls slot@@)") + f" (emit {rd(path('(get-tls slot@@)'))})", exp)
    elif holder == "thread-tls":
        # the only reference is a thread-local slot of ANOTHER thread (not its stack); the collecting thread is main
        S("(define slot@@ (make-tls #f)) (define go@@ (channels/new)) (define ready@@ (channels/new))")
        S(f"(define t@@ (spawn-native-thread (lambda () (set-tls! slot@@ {W}) (channel/send (channels-sender ready@@) 1) "
          f"(channel/recv (channels-receiver go@@)) {rd(path('(get-tls slot@@)'))})))")
        S(f"(channel/recv (channels-receiver ready@@)) {ev('')} (channel/send (channels-sender go@@) 1) (emit (thread-join! t@@))", exp)
    elif holder == "host-rooted":
        S(f"(define h@@ {W}) (define (rd@@ x) {rd(path('x'))})")
        steps.append({"op": "root:h@@", "class": "ok"})
        S("(set! h@@ #f) " + ev(""))
        steps.append({"op": "call_rooted:0:rd@@", "class": "ok", "emit": exp})
    elif holder == "struct-field":
        S(f"(define h@@ (wrap@@ {W}))")
        S(ev("(wrap@@-f h@@)") + f" (emit {rd(path('(wrap@@-f h@@)'))})", exp)
    elif holder == "closure-in-box":
        S(f"(define h@@ (box (let ([x {W}]) (lambda () {rd(path('x'))}))))")
        S(ev("") + " (emit ((unbox h@@)))", exp)
    else:
        raise vlib.ToolError(f"unknown holder {holder}")
    hid = hashlib.sha1(json.dumps([holder, obj, nest, events]).encode()).hexdigest()[:10]
    return {"id": f"{prefix}-{hid}", "fresh": False, "steps": steps,
            "tag": f"holder:{holder}|obj:{obj}|nest:{nest}|events:{','.join(events)}"}


def scenario_cases(r, work, tier, seed, prefix, garbage_n):
    res = vlib.run_tlc("HeapCases", "MC_HeapCases.cfg", work, workers=4, timeout=600)
    r.add_tlc(res)
    cases = [render(c, prefix, garbage_n) for c in res["cases"]]
    cases = [c for c in cases if c]
    return cases


CONFIGS = [
    # name, env, garbage allocations per `garbage` event
    ("natural", {"VERIF_USE_FREE_CHECK": "1"}, 30000),
    # a full collection at EVERY allocation (each one also grows the heap by a chunk, so this is
    # expensive: tiny garbage, sampled in the quick tier)
    ("forced", {"VERIF_USE_FREE_CHECK": "1", "VERIF_GC_EVERY": "2"}, 3),
    ("natural-nojit", {"VERIF_USE_FREE_CHECK": "1", "STEEL_JIT": "false"}, 30000),
]


def script_cases():
    """impl -> spec: the repository's own scripts become heap tests: run under forced collection,
    every program access to a reclaimed slot is a violation (the scripts allocate; the suite
    never checks the collector)."""
    out = []
    for p in sorted(glob.glob("/repo/crates/steel-core/src/tests/success/*.scm")):
        src = open(p).read()
        name = os.path.basename(p)
        if "require" in src and "steel/" not in src and '(require "' in src:
            continue
        out.append({"id": "script-" + name, "fresh": True, "steps": [{"src": src, "class": "ok"}],
                    "tag": "script:" + name})
    return out


def run(tier, seed):
    work = os.path.join(vlib.WORK, PROP)
    r = vlib.Result(PROP, tier, seed)
    rnd = random.Random(seed)
    # 1. design: with every holder scanned the collector is sound and precise; accounting holds
    res = vlib.run_tlc("Heap", "MC_Heap_fixed.cfg", work, workers=8, timeout=900, allow_violation=True)
    r.add_tlc(res)
    if res["violation"]:
        r.violation(f"Heap.tla (all holders scanned) violates {res.get('violated')}", {"id": "model", "tlc": res["violation"][:3000]})
    # the code's root list misses a holder: the model must exhibit it
    res = vlib.run_tlc("Heap", "MC_Heap_asis.cfg", work, workers=4, timeout=300, allow_violation=True)
    r.add_tlc(res)
    if not res["violation"]:
        r.notes.append("as-is root list: model finds no counterexample")

    # 2. spec -> impl: every scenario under natural and forced collection schedules
    nontriv = lambda c: True
    for name, env, gn in CONFIGS:
        if tier == "quick" and name == "natural-nojit":
            continue
        cases = scenario_cases(r, work, tier, seed, name, gn)
        if tier == "quick":
            # natural schedules need heavy allocation: sample; forced schedules: all
            cases = rnd.sample(cases, min(1500 if name == "natural" else 240, len(cases)))
        elif name == "forced":
            cases = rnd.sample(cases, min(4000, len(cases)))
        verdicts = vlib.replay(cases, work, env_extra=env, jobs=12, timeout_ms=60000, name=f"c04-{name}")
        r.add_cases(cases, verdicts, nontrivial=nontriv)
    # 3. impl -> spec: repository scripts under forced collection
    scripts = script_cases()
    if tier == "quick":
        keep_always = [c for c in scripts if "thread" in c["id"] or "gc" in c["id"]]
        rest = [c for c in scripts if c not in keep_always]
        scripts = keep_always + rnd.sample(rest, min(24, len(rest)))
    # one process per script: scripts leave threads behind, and the sensors are process-global
    base = vlib.replay(scripts, work, env_extra={}, jobs=12, timeout_ms=120000, name="c04-scripts-base", isolate=True)
    ok = [c for c, v in zip(scripts, base) if v["pass"]]
    verdicts = vlib.replay(ok, work, env_extra={"VERIF_USE_FREE_CHECK": "1", "VERIF_GC_EVERY": "50"}, jobs=12,
                           timeout_ms=120000, name="c04-scripts-forced", isolate=True)
    # a script that merely becomes too slow under forced collection is inconclusive, not a violation
    slow = [c["id"] for c, v in zip(ok, verdicts) if v["why"] == "process hang"]
    keep = [(c, v) for c, v in zip(ok, verdicts) if v["why"] != "process hang"]
    r.add_cases([c for c, _ in keep], [v for _, v in keep], nontrivial=nontriv)
    r.notes.append(f"{len(keep)} of {len(scripts)} repository scripts validated under forced collection; "
                   f"inconclusive (time limit): {slow}")
    r.cov["rule"] = ("scenarios enumerated by HeapCases.tla (holder kind x storage kind x nesting x event sequence), each under "
                     "natural and forced collection schedules with the use-free sensor; plus the repository's scripts under forced "
                     "collection; every scenario is non-trivial (a collection can happen while the holder is the only reference)")
    r.cov["exhaustive"] = tier == "thorough"
    return r.finish()


def replay_file(path):
    obj = json.load(open(path))
    env = {"VERIF_USE_FREE_CHECK": "1"}
    if obj["case"]["id"].startswith("forced"):
        env["VERIF_GC_EVERY"] = "2"
    return vlib.replay_file(PROP, path, env_extra=env)
