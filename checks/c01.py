"""C01 - compiled execution agrees with the reference semantics (Lang.tla)."""
import os
import vlib
import langcases as lc

PROP = "C01"


def gen(tier, seed, work):
    """TLC as generator + oracle: exhaustive builder, families, random deep programs."""
    runs = []
    runs.append(vlib.run_tlc("Lang", "MC_Lang_build_quick.cfg" if tier == "quick" else "MC_Lang_build.cfg",
                             work, workers=8, timeout=(1500 if tier == "quick" else 3600)))
    # the RICH alphabet (data structures, strings, integer division, library higher-order procedures), budget 3
    runs.append(vlib.run_tlc("Lang", "MC_Lang_rich_quick.cfg", work, workers=8, timeout=(1500 if tier == "quick" else 3600)))
    # random deep programs: the same builder under -simulate (must grow to MINNODES, at most 3 forms side by side)
    runs.append(vlib.run_tlc("Lang", "MC_Lang_sim.cfg", work, workers=4, timeout=900,
                             simulate=f"num={400 if tier == 'quick' else 8000}", seed=seed, depth=900))
    return runs


def run(tier, seed):
    work = os.path.join(vlib.WORK, PROP)
    r = vlib.Result(PROP, tier, seed)
    runs = gen(tier, seed, work)
    cases = []
    for res in runs:
        r.add_tlc(res)
        cases += [lc.to_case(c, "L") for c in res["cases"]]
    for fam in ("calls", "control", "tail", "delim", "store", "wide", "applam", "reads", "param", "restloop", "idefs"):
        cases += lc.run_family(vlib, fam, work, r, fresh=(fam not in ("calls", "wide", "applam", "reads", "restloop", "idefs")))
    cases = lc.dedup(cases)
    verdicts = vlib.replay(cases, work, jobs=12, timeout_ms=10000, name="c01")
    r.add_cases(cases, verdicts, nontrivial=lc.nontrivial)
    # impl -> spec: the interpreter's event trace of every program (first 1500 events) against spec/Vm.tla:
    # every instruction's stack effect and next address, frames pushed / reused / popped as the op code says
    vlib.vm_trace_check(r, cases, work, "c01", cap=1500)
    # the same programs as ONE MODULE each (how `steel file.scm` runs code: builtins resolve to #%prim.*, which
    # selects the specialised op codes, arity-free calls and the JIT's typed helpers)
    lc.replay_modules(vlib, cases, work, r, "c01.mod", nontriv=lc.nontrivial_mod)
    r.cov["rule"] = ("programs assembled by Lang.tla's builder (all programs within the node budget) "
                     "+ seeded random walks of the builder (9-16 nodes) + LangFam.tla families, run on its CEK machine, replayed as top-level units and (programs without an expected error) as one module file; non-trivial = observes an emit, an error or a non-void value")
    r.cov["exhaustive"] = True
    return r.finish()


def replay_file(path):
    return vlib.replay_file(PROP, path)
