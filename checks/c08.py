"""C08 - continuations, dynamic-wind and handlers restore the captured control state."""
import os
import vlib
import langcases as lc

PROP = "C08"


def run(tier, seed):
    work = os.path.join(vlib.WORK, PROP)
    r = vlib.Result(PROP, tier, seed)
    cases = lc.run_family(vlib, "control", work, r, fresh=True)
    cases += lc.run_family(vlib, "delim", work, r, fresh=True)
    cases += lc.run_family(vlib, "store", work, r, fresh=True)
    cases += lc.run_family(vlib, "param", work, r, fresh=True)
    # the builder also assembles call/cc and with-handler forms: all programs within the budget
    res = vlib.run_tlc("Lang", "MC_Lang_build_quick.cfg" if tier == "quick" else "MC_Lang_build.cfg", work, workers=8, timeout=(1500 if tier == "quick" else 3600))
    r.add_tlc(res)
    built = [lc.to_case(c, "L") for c in res["cases"] if any(("call/cc" in u["src"] or "with-handler" in u["src"]) for u in c["units"])]
    cases += lc.dedup(built)
    for env in ({}, {"STEEL_JIT": "false"}):
        verdicts = vlib.replay(cases, work, env_extra=env, jobs=12, timeout_ms=30000, name="c08")
        tagged = [dict(c, id=c["id"] + ("@nojit" if env else "")) for c in cases]
        for t, v in zip(tagged, verdicts):
            v["id"] = t["id"]
        r.add_cases(tagged, verdicts, nontrivial=lc.nontrivial)
    # impl -> spec: the interpreter's own event trace of every case must be a behaviour of spec/Vm.tla
    # (frames returned to where they were pushed, continuations restore what was captured, unwinding stops
    # at the frame that carries the handler, nothing left on the stacks of an idle engine)
    vlib.vm_trace_check(r, cases, work, "c08")
    for env in (None, {"STEEL_JIT": "false"}):
        lc.replay_modules(vlib, cases, work, r, "c08.mod" + ("n" if env else ""), env=env, nontriv=lc.nontrivial_mod)
    r.cov["rule"] = ("param family (parameter objects / parameterize as the R7RS reference implementation over dynamic-wind: value expression with and without effects x read / nest / escape / raise / re-entry), delim family (reset/shift defined exactly as scheme/stdlib.scm does, on call/cc and a meta-continuation cell: contexts x uses of k x dynamic-wind nesting) and control family of LangFam.tla (capture context x dynamic-wind nesting x invocation; escapes from nested calls, "
                     "map/foldl callbacks and handlers; errors through winds and handlers) and every builder program containing call/cc "
                     "or with-handler, run on the Lang.tla CEK machine and replayed under JIT on and off, as top-level units and as module files; "
                     "the interpreter's event trace of every case (dispatch steps, instalments, capture / invoke, handler frames, unwinding) "
                     "validated by TLC against spec/Vm.tla through Trace_Vm.tla")
    r.cov["exhaustive"] = True
    return r.finish()


def replay_file(path):
    return vlib.replay_file(PROP, path)
