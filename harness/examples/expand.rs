use steel::steel_vm::engine::Engine;
fn main() {
    let src = std::env::args().nth(1).unwrap();
    let mut e = Engine::new();
    match e.emit_fully_expanded_ast_to_string(&src, None) {
        Ok(s) => println!("{}", s),
        Err(err) => println!("ERR {:?}", err),
    }
}
