//! Shared pieces of the verification harness: case format, engine construction with the
//! host-side `emit` observer, outcome classification.
use serde::{Deserialize, Serialize};
use std::panic::{catch_unwind, AssertUnwindSafe};
use std::sync::{Arc, Mutex};
use steel::rerrs::ErrorKind;
use steel::steel_vm::engine::Engine;
use steel::steel_vm::register_fn::RegisterFn;
use steel::SteelVal;

#[derive(Deserialize, Serialize, Clone, Debug)]
pub struct Step {
    /// Scheme text (ignored when `op` is set)
    #[serde(default)]
    pub src: String,
    /// host-side directive instead of Scheme text:
    ///   "force_recycle"  redefine a pad name until the global slot recycler has run
    ///   "fill_free"      define fresh names until no recycled global slot is left
    ///   "hold:<name>"    extract_value(name) and keep it on the host side
    ///   "call_held:<k>"  call the k-th held value with no arguments and emit the result
    #[serde(default)]
    pub op: Option<String>,
    /// "ok" | "err" | "err:<Kind>" | "any" | "noncrash" (ok or err, never panic)
    #[serde(default = "any")]
    pub class: String,
    /// expected sequence of emitted values (Display form); None = not compared
    #[serde(default)]
    pub emit: Option<Vec<String>>,
    /// expected Display form of the last top-level value; None = not compared
    #[serde(default)]
    pub val: Option<String>,
}
fn any() -> String {
    "any".to_string()
}

#[derive(Deserialize, Serialize, Clone, Debug)]
pub struct Case {
    pub id: String,
    /// run on a fresh engine (histories whose point is engine state)
    #[serde(default)]
    pub fresh: bool,
    pub steps: Vec<Step>,
    /// free-form tag carried through to the verdict (family, known-finding key ...)
    #[serde(default)]
    pub tag: String,
}

#[derive(Serialize, Deserialize, Clone, Debug, Default)]
pub struct Got {
    pub class: String, // ok | err:<Kind> | panic
    pub emit: Vec<String>,
    pub val: Option<String>,
    pub msg: Option<String>,
}

#[derive(Serialize, Deserialize, Clone, Debug)]
pub struct Verdict {
    pub id: String,
    pub tag: String,
    pub pass: bool,
    pub why: String,
    pub step: usize,
    pub got: Vec<Got>,
}

pub type Log = Arc<Mutex<Vec<String>>>;

pub fn kind_name(k: ErrorKind) -> String {
    format!("{:?}", k)
}

pub fn new_engine(log: &Log) -> Engine {
    let mut e = Engine::new();
    let l = log.clone();
    e.register_fn("emit", move |v: SteelVal| -> SteelVal {
        let s = v.to_string();
        l.lock().unwrap().push(s);
        SteelVal::Void
    });
    // (depth=? a b): two (#%verif-depth) observations are in the same space class: the sums of
    // frames and stack values differ by a bounded amount (phase of an unrolled loop body), not by
    // an amount that grows with the iteration count
    e.register_fn("depth=?", move |a: SteelVal, b: SteelVal| -> bool {
        fn total(v: &SteelVal) -> i64 {
            match v {
                SteelVal::IntV(i) => *i as i64,
                SteelVal::ListV(l) => l.iter().map(total).sum(),
                _ => i64::MAX / 4,
            }
        }
        (total(&a) - total(&b)).abs() < 64
    });
    // identity that the optimiser cannot see through (defeats constant folding)
    e.register_fn("opaque", move |v: SteelVal| -> SteelVal { v });
    e
}

/// Host-side state of one case (values the embedder keeps).
#[derive(Default)]
pub struct HostState {
    pub rooted: Vec<steel::RootedSteelVal>,
    pub held: Vec<SteelVal>,
    pub uniq: String,
    pub pad: usize,
}

pub fn gen_of(e: &Engine) -> (usize, usize) {
    let (_, threshold, _, epoch) = e.verif_symbol_map_stats();
    (threshold, epoch)
}

/// Execute a host-side directive.
pub fn run_op(e: &mut Engine, log: &Log, host: &mut HostState, op: &str) -> Got {
    log.lock().unwrap().clear();
    let r = catch_unwind(AssertUnwindSafe(|| -> std::result::Result<Option<String>, String> {
        if op == "force_recycle" {
            let g0 = gen_of(e);
            let mut n = 0;
            while gen_of(e) == g0 {
                host.pad += 1;
                let src = format!("(define verif-pad-{} {})", host.uniq, host.pad);
                e.compile_and_run_raw_program(src).map_err(|x| x.to_string())?;
                n += 1;
                if n > 5000 { return Err("recycler never ran".into()); }
            }
            Ok(Some(format!("{n}")))
        } else if op == "fill_free" {
            let mut n = 0;
            while e.verif_symbol_map_stats().2 > 0 {
                host.pad += 1;
                let src = format!("(define verif-fill-{}-{} 'junk-{})", host.uniq, host.pad, host.pad);
                e.compile_and_run_raw_program(src).map_err(|x| x.to_string())?;
                n += 1;
                if n > 5000 { return Err("free list never drained".into()); }
            }
            Ok(Some(format!("{n}")))
        } else if let Some(name) = op.strip_prefix("hold:") {
            let v = e.extract_value(&name.replace("@@", &host.uniq)).map_err(|x| x.to_string())?;
            host.held.push(v);
            Ok(None)
        } else if op == "heap_acct" {
            // accounting only (workloads with a large live set)
            let st = e.verif_heap_stats();
            let mut l = log.lock().unwrap();
            for (_slots, alloc_count, free) in st {
                l.push(format!("accounting:{}", if alloc_count == free { "exact".to_string() } else { format!("alloc_count={alloc_count} free={free}") }));
            }
            Ok(Some(format!("{:?}", st)))
        } else if op == "heap_stats" {
            // emits, for the value list and the vector list: slots, and whether the accounted free
            // count equals the number of slots actually marked free
            let st = e.verif_heap_stats();
            let mut l = log.lock().unwrap();
            for (slots, alloc_count, free) in st {
                // (policy ceiling: 25 600 slots doubled at most 10 times between two compactions, with slack)
                l.push(format!("slots<={}", if slots <= 64_000_000 { "bound" } else { "EXCEEDED" }));
                l.push(format!("accounting:{}", if alloc_count == free { "exact".to_string() } else { format!("alloc_count={alloc_count} free={free}") }));
                // storage still marked reachable (the workloads that ask keep almost nothing alive)
                l.push(format!("live:{}", if slots - free <= 2000 { "small".to_string() } else { format!("{}", slots - free) }));
            }
            Ok(Some(format!("{:?}", st)))
        } else if let Some(rest) = op.strip_prefix("gc_rounds:") {
            // gc_rounds:<k>:<source>  -- k times { run <source>; full collection; heap stats }.
            // The collector's policy grows the heap at most full collections and compacts it every
            // few: over enough rounds with a constant live set the slot count must come back down
            // (min over the rounds small) and never pass the policy's ceiling (max bounded); after
            // every collection the accounting is exact and only the live set is marked.
            let (k, src) = rest.split_once(':').ok_or("bad gc_rounds")?;
            let k: usize = k.parse().map_err(|_| "bad count".to_string())?;
            let src = src.replace("@@", &host.uniq);
            let (mut min, mut max, mut bad_acc, mut bad_live) = (usize::MAX, 0usize, 0usize, 0usize);
            let mut series = Vec::new();
            for _ in 0..k {
                e.run(src.clone()).map_err(|x| x.to_string())?;
                e.run("(#%gc-collect)".to_string()).map_err(|x| x.to_string())?;
                let st = e.verif_heap_stats();
                let total: usize = st.iter().map(|x| x.0).sum();
                series.push(st[0].0);
                // the value list is compacted to live + one chunk (25 600 slots) every RESET_LIMIT + 2 full
                // collections; the vector list is only required to stay bounded
                min = min.min(st[0].0);
                max = max.max(total);
                for (slots, alloc_count, free) in st {
                    if alloc_count != free { bad_acc += 1; }
                    if slots - free > 2000 { bad_live += 1; }
                }
            }
            let mut l = log.lock().unwrap();
            l.push(format!("min-slots:{}", if min <= 60_000 { "small".to_string() } else { min.to_string() }));
            l.push(format!("max-slots:{}", if max <= 64_000_000 { "bounded".to_string() } else { max.to_string() }));
            l.push(format!("accounting:{}", if bad_acc == 0 { "exact".to_string() } else { format!("{bad_acc} rounds off") }));
            l.push(format!("live:{}", if bad_live == 0 { "small".to_string() } else { format!("{bad_live} rounds large") }));
            Ok(Some(format!("{:?}", series)))
        } else if op == "unroot_all" {
            host.rooted.clear();
            Ok(None)
        } else if let Some(name) = op.strip_prefix("root:") {
            // the embedder keeps the value alive through the rooting API only
            let v = e.extract_value(&name.replace("@@", &host.uniq)).map_err(|x| x.to_string())?;
            host.rooted.push(v.as_rooted());
            Ok(None)
        } else if let Some(rest) = op.strip_prefix("call_rooted:") {
            // call_rooted:<k>:<function name>  -- apply a script function to the k-th rooted value
            let (k, f) = rest.split_once(':').ok_or("bad call_rooted")?;
            let k: usize = k.parse().map_err(|_| "bad index".to_string())?;
            let arg = host.rooted.get(k).map(|r| r.value().clone()).ok_or("no such rooted value")?;
            let v = e.call_function_by_name_with_args(&f.replace("@@", &host.uniq), vec![arg]).map_err(|x| x.to_string())?;
            log.lock().unwrap().push(v.to_string());
            Ok(None)
        } else if let Some(k) = op.strip_prefix("call_held:") {
            let k: usize = k.parse().map_err(|_| "bad index".to_string())?;
            let f = host.held.get(k).cloned().ok_or("no such held value")?;
            let v = e.call_function_with_args(f, vec![]).map_err(|x| x.to_string())?;
            log.lock().unwrap().push(v.to_string());
            Ok(None)
        } else {
            Err(format!("unknown op {op}"))
        }
    }));
    let emit = log.lock().unwrap().clone();
    match r {
        Ok(Ok(val)) => Got { class: "ok".into(), emit, val, msg: None },
        Ok(Err(m)) => Got { class: "err:Host".into(), emit, val: None, msg: Some(m.chars().take(200).collect()) },
        Err(_) => Got { class: "panic".into(), emit, val: None, msg: Some("panic in host op".into()) },
    }
}

/// Evaluate one step on `e`, returning what was observed.  Panics are data.
pub fn run_step(e: &mut Engine, log: &Log, src: &str) -> Got {
    log.lock().unwrap().clear();
    let r = catch_unwind(AssertUnwindSafe(|| {
        e.compile_and_run_raw_program(src.to_string())
    }));
    let emit = log.lock().unwrap().clone();
    match r {
        Ok(Ok(vs)) => {
            let val = catch_unwind(AssertUnwindSafe(|| vs.last().map(|v| v.to_string())));
            match val {
                Ok(val) => Got { class: "ok".into(), emit, val, msg: None },
                Err(_) => Got { class: "panic".into(), emit, val: None, msg: Some("panic while printing value".into()) },
            }
        }
        Ok(Err(err)) => {
            let kind = kind_name(err.kind());
            let msg = err.to_string().lines().next().unwrap_or("").chars().take(200).collect::<String>();
            Got { class: format!("err:{kind}"), emit, val: None, msg: Some(msg) }
        }
        Err(p) => {
            let msg = if let Some(s) = p.downcast_ref::<String>() {
                s.clone()
            } else if let Some(s) = p.downcast_ref::<&str>() {
                s.to_string()
            } else {
                "panic".to_string()
            };
            Got { class: "panic".into(), emit, val: None, msg: Some(msg.chars().take(200).collect()) }
        }
    }
}

pub fn class_matches(expected: &str, got: &str) -> bool {
    match expected {
        "any" => true,
        "noncrash" => got != "panic",
        "ok" => got == "ok",
        "err" => got.starts_with("err:"),
        e if e.starts_with("err:") => {
            // alternatives separated by '|'
            e[4..].split('|').any(|k| got == format!("err:{k}"))
        }
        _ => false,
    }
}

/// `#<bytecode-closure>`, `#<function:car>` ... -> `#<proc>` (identity of opaque values is
/// not part of the observable); `#<void>` is kept.
pub fn normalize(s: &str) -> String {
    // an error object (what a handler receives) prints as its message: opaque
    if s.starts_with("Error: ") {
        return "#<proc>".to_string();
    }
    let mut out = String::with_capacity(s.len());
    let s = s.replace("(Continuation)", "#<proc>");
    let b: Vec<char> = s.chars().collect();
    let mut i = 0;
    let mut in_str = false;
    while i < b.len() {
        let c = b[i];
        if in_str {
            out.push(c);
            if c == '\\' && i + 1 < b.len() { out.push(b[i + 1]); i += 2; continue; }
            if c == '"' { in_str = false; }
            i += 1;
            continue;
        }
        if c == '"' { in_str = true; out.push(c); i += 1; continue; }
        if c == '#' && i + 1 < b.len() && b[i + 1] == '<' {
            let mut j = i + 2;
            let mut depth = 1;
            while j < b.len() && depth > 0 {
                if b[j] == '<' { depth += 1; }
                if b[j] == '>' { depth -= 1; }
                j += 1;
            }
            let tok: String = b[i..j].iter().collect();
            if tok == "#<void>" { out.push_str(&tok); } else { out.push_str("#<proc>"); }
            i = j;
            continue;
        }
        out.push(c);
        i += 1;
    }
    out
}

/// Compare one step's observation with its expectation; returns None if it agrees.
pub fn judge(step: &Step, got: &Got) -> Option<String> {
    if !class_matches(&step.class, &got.class) {
        return Some(format!("class: expected {} got {}", step.class, got.class));
    }
    if let Some(exp) = &step.emit {
        let norm: Vec<String> = got.emit.iter().map(|x| normalize(x)).collect();
        if exp != &norm {
            return Some(format!("emit: expected {:?} got {:?}", exp, got.emit));
        }
    }
    if let Some(v) = &step.val {
        if got.class == "ok" && Some(v.clone()) != got.val.as_ref().map(|x| normalize(x)) {
            return Some(format!("val: expected {:?} got {:?}", v, got.val));
        }
    }
    None
}

/// Recorder of VM-level events (hook `steel::verif::install_vm`, cfg(steel_verif)) as NDJSON for
/// trace validation against spec/Trace_Vm.tla.  Enabled by `VERIF_VMTRACE=<path>`; at most
/// `VERIF_VMTRACE_CAP` events are recorded per case (a prefix of a behaviour is a behaviour).
/// Only the thread that began the case is recorded.
pub mod vmrec {
    use std::collections::HashMap;
    use std::io::Write;
    use std::sync::atomic::{AtomicBool, Ordering};
    use std::sync::Mutex;
    use steel::verif::VmEvent;

    static ACTIVE: AtomicBool = AtomicBool::new(false);
    struct Rec {
        out: Option<std::io::BufWriter<std::fs::File>>,
        codes: HashMap<usize, u32>,
        marks: HashMap<usize, u32>,
        count: usize,
        cap: usize,
        owner: Option<std::thread::ThreadId>,
        truncated: bool,
        /// identity of the engine under test (VmEvent::engine); events of other engines on the same OS
        /// thread (the macro expander's kernel engine) are not part of the trace
        engine: usize,
        learn: bool,
    }
    static REC: Mutex<Option<Rec>> = Mutex::new(None);

    pub fn init_from_env() -> bool {
        let Ok(path) = std::env::var("VERIF_VMTRACE") else { return false };
        let cap = std::env::var("VERIF_VMTRACE_CAP").ok().and_then(|x| x.parse().ok()).unwrap_or(3000);
        // a directory (or a path ending in '/'): one file per replayer process
        let path = if path.ends_with('/') || std::path::Path::new(&path).is_dir() {
            let _ = std::fs::create_dir_all(&path);
            format!("{}/trace.{}.ndjson", path.trim_end_matches('/'), std::process::id())
        } else {
            path
        };
        let f = std::fs::OpenOptions::new().create(true).append(true).open(path).expect("vm trace file");
        *REC.lock().unwrap() = Some(Rec { out: Some(std::io::BufWriter::new(f)), codes: HashMap::new(), marks: HashMap::new(),
                                          count: 0, cap, owner: None, truncated: false, engine: 0, learn: false });
        steel::verif::install_vm(Some(hook));
        true
    }

    pub fn begin_case(id: &str, e: &mut steel::steel_vm::engine::Engine) {
        // learn the identity of this engine: the first event of a trivial evaluation
        {
            let mut g = REC.lock().unwrap();
            if let Some(r) = g.as_mut() {
                r.learn = true;
                r.owner = Some(std::thread::current().id());
            }
        }
        ACTIVE.store(true, Ordering::SeqCst);
        let _ = e.compile_and_run_raw_program("1".to_string());
        ACTIVE.store(false, Ordering::SeqCst);
        let mut g = REC.lock().unwrap();
        if let Some(r) = g.as_mut() {
            r.learn = false;
            r.codes.clear();
            r.marks.clear();
            r.count = 0;
            r.truncated = false;
            r.owner = Some(std::thread::current().id());
            if let Some(o) = r.out.as_mut() {
                let _ = writeln!(o, "{}", serde_json::json!({"k": "case", "id": id}));
            }
            ACTIVE.store(true, Ordering::SeqCst);
        }
    }

    /// a new top-level evaluation unit of the same case begins
    pub fn mark_unit() {
        let mut g = REC.lock().unwrap();
        if let Some(r) = g.as_mut() {
            if let Some(o) = r.out.as_mut() {
                let _ = writeln!(o, "{}", serde_json::json!({"k": "unit"}));
            }
        }
    }

    pub fn end_case() {
        ACTIVE.store(false, Ordering::SeqCst);
        let mut g = REC.lock().unwrap();
        if let Some(r) = g.as_mut() {
            if let Some(o) = r.out.as_mut() {
                let _ = o.flush();
            }
        }
    }

    fn opname(x: Option<(steel::core::opcode::OpCode, usize)>) -> (String, usize) {
        match x {
            Some((o, p)) => (format!("{:?}", o), p),
            None => ("END".to_string(), 0),
        }
    }

    fn kind_name(k: u32) -> &'static str {
        match k {
            steel::verif::VM_STEP => "step",
            steel::verif::VM_ENTER => "enter",
            steel::verif::VM_EXIT_OK => "exit_ok",
            steel::verif::VM_EXIT_ERR => "exit_err",
            steel::verif::VM_HANDLER => "handler",
            steel::verif::VM_LEAVE => "leave",
            steel::verif::VM_CAPTURE => "capture",
            steel::verif::VM_INVOKE => "invoke",
            steel::verif::VM_HANDLER_FRAME => "hframe",
            steel::verif::VM_APPLY => "apply",
            _ => "other",
        }
    }

    fn hook(ev: &VmEvent) {
        if !ACTIVE.load(Ordering::Relaxed) {
            return;
        }
        let mut g = REC.lock().unwrap();
        let Some(r) = g.as_mut() else { return };
        if r.owner != Some(std::thread::current().id()) {
            return;
        }
        if r.learn {
            // a top-level run of the engine under test (the expander's engine is only ever called into)
            if ev.kind == steel::verif::VM_ENTER && ev.depth == 0 {
                r.engine = ev.engine;
            }
            return;
        }
        if ev.engine != r.engine {
            return;
        }
        if r.count >= r.cap {
            if !r.truncated {
                r.truncated = true;
                if let Some(o) = r.out.as_mut() {
                    let _ = writeln!(o, "{}", serde_json::json!({"k": "trunc"}));
                }
            }
            return;
        }
        r.count += 1;
        let nc = r.codes.len() as u32 + 1;
        let c = *r.codes.entry(ev.code).or_insert(nc);
        let a = if ev.kind == steel::verif::VM_CAPTURE || ev.kind == steel::verif::VM_INVOKE {
            let nm = r.marks.len() as u32 + 1;
            *r.marks.entry(ev.aux).or_insert(nm)
        } else {
            ev.aux as u32
        };
        let (op, pl) = opname(ev.op);
        let (n1, n1p) = opname(ev.next[0]);
        let (n2, n2p) = opname(ev.next[1]);
        let (n3, _) = opname(ev.next[2]);
        if let Some(o) = r.out.as_mut() {
            let _ = writeln!(
                o,
                "{{\"k\":\"{}\",\"a\":{},\"d\":{},\"op\":\"{}\",\"pl\":{},\"n1\":\"{}\",\"n1p\":{},\"n2\":\"{}\",\"n2p\":{},\"n3\":\"{}\",\"ip\":{},\"c\":{},\"sl\":{},\"fl\":{},\"sp\":{},\"pc\":{}}}",
                kind_name(ev.kind), a, ev.depth, op, pl, n1, n1p, n2, n2p, n3, ev.ip, c, ev.stack_len, ev.frames_len, ev.sp, ev.pop_count
            );
        }
    }
}
