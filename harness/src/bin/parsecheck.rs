//! Parser-level driver for C12 (b) parse/print idempotence and (c) totality + spans.
//!
//! usage: parsecheck <cases.ndjson> <out.ndjson> [--timeout-ms N] [--skip K]
//!
//! Same command line and output protocol as `replay` (so `vlib.replay(..., binary="parsecheck")`
//! drives it, including attribution of a dead/hung process to the running case): the input is
//! the replayer's case format, and every step's `src` is a TEXT handed to `steel_parser`.
//! No engine is involved.  For every text and both parser modes (`lower` = Parser::new, what
//! the compiler uses; `flat` = Parser::new_flat, what the runtime `read` uses):
//!
//!  * the parser is run to its first error; a panic is caught and reported as data;
//!  * every span in every successfully parsed expression and the span of the parse error must
//!    satisfy start <= end <= text.len() and fall on character boundaries;
//!  * if the whole text is accepted: print the expressions (Display, and to_pretty(60)),
//!    parse the printed text again in the same mode: it must be accepted and give the same
//!    syntax trees (compared structurally: spans and syntax-object ids are ignored).
//!
//! Step `class`: "accept" / "reject" (the lowering-free `flat` parser must accept / reject the
//! text - used by the mutant self-test and for texts whose validity the spec decides),
//! anything else = no expectation on acceptance.
use serde_json::{json, Value};
use std::io::Write;
use std::panic::{catch_unwind, AssertUnwindSafe};
use std::sync::{Arc, Mutex};
use std::time::{Duration, Instant};
use steel_parser::ast::ExprKind;
use steel_parser::parser::Parser;
use verif_harness::{Case, Got, Verdict};

#[derive(Clone, Copy, PartialEq)]
enum Mode {
    Lower,
    Flat,
}

impl Mode {
    fn name(self) -> &'static str {
        match self {
            Mode::Lower => "lower",
            Mode::Flat => "flat",
        }
    }
}

enum Parsed {
    /// whole text accepted
    Accepted(Vec<ExprKind>),
    /// expressions before the first error, the error's text and span
    Rejected(Vec<ExprKind>, String, (u32, u32)),
}

fn parse(text: &str, mode: Mode) -> Parsed {
    let p = match mode {
        Mode::Lower => Parser::new(text, None),
        Mode::Flat => Parser::new_flat(text, None),
    };
    let mut out = Vec::new();
    // the parser is an iterator; a text of n bytes cannot hold more than n expressions
    // (+ a queued doc expression per expression): anything beyond that is a livelock
    let cap = 2 * text.len() + 4;
    for item in p {
        match item {
            Ok(e) => out.push(e),
            Err(err) => {
                let s = err.span();
                return Parsed::Rejected(out, err.to_string(), (s.start, s.end));
            }
        }
        if out.len() > cap {
            return Parsed::Rejected(out, "LIVELOCK: more expressions than bytes".into(), (0, 0));
        }
    }
    Parsed::Accepted(out)
}

fn panic_msg(p: Box<dyn std::any::Any + Send>) -> String {
    let m = if let Some(s) = p.downcast_ref::<String>() {
        s.clone()
    } else if let Some(s) = p.downcast_ref::<&str>() {
        s.to_string()
    } else {
        "panic".to_string()
    };
    m.chars().take(200).collect()
}

/// all spans (objects with exactly the Span fields) inside a serialised tree
fn spans(v: &Value, out: &mut Vec<(u64, u64)>) {
    match v {
        Value::Object(m) => {
            if m.len() == 3 && m.contains_key("start") && m.contains_key("end") && m.contains_key("source_id") {
                if let (Some(s), Some(e)) = (m["start"].as_u64(), m["end"].as_u64()) {
                    out.push((s, e));
                }
            }
            for (_, x) in m {
                spans(x, out);
            }
        }
        Value::Array(a) => {
            for x in a {
                spans(x, out);
            }
        }
        _ => {}
    }
}

/// the tree without locations and identities
fn shape(v: &Value) -> Value {
    match v {
        Value::Object(m) => {
            if m.len() == 3 && m.contains_key("start") && m.contains_key("end") && m.contains_key("source_id") {
                return Value::Null;
            }
            let mut o = serde_json::Map::new();
            for (k, x) in m {
                if k == "span" || k == "syntax_object_id" {
                    continue;
                }
                o.insert(k.clone(), shape(x));
            }
            Value::Object(o)
        }
        Value::Array(a) => Value::Array(a.iter().map(shape).collect()),
        x => x.clone(),
    }
}

/// first path at which two shapes differ
fn diff(a: &Value, b: &Value, path: &str) -> Option<String> {
    match (a, b) {
        (Value::Object(x), Value::Object(y)) => {
            for (k, v) in x {
                match y.get(k) {
                    Some(w) => {
                        if let Some(d) = diff(v, w, &format!("{path}.{k}")) {
                            return Some(d);
                        }
                    }
                    None => return Some(format!("{path}: key {k} only in the first tree")),
                }
            }
            for k in y.keys() {
                if !x.contains_key(k) {
                    return Some(format!("{path}: key {k} only in the second tree (first has {})", x.keys().cloned().collect::<Vec<_>>().join(",")));
                }
            }
            None
        }
        (Value::Array(x), Value::Array(y)) => {
            if x.len() != y.len() {
                return Some(format!("{path}: {} vs {} elements", x.len(), y.len()));
            }
            for (i, (v, w)) in x.iter().zip(y.iter()).enumerate() {
                if let Some(d) = diff(v, w, &format!("{path}[{i}]")) {
                    return Some(d);
                }
            }
            None
        }
        _ => {
            if a == b {
                None
            } else {
                let f = |v: &Value| v.to_string().chars().take(80).collect::<String>();
                Some(format!("{path}: {} vs {}", f(a), f(b)))
            }
        }
    }
}

fn span_ok(text: &str, s: u64, e: u64) -> bool {
    s <= e && (e as usize) <= text.len() && text.get(s as usize..e as usize).is_some()
}

fn tree(exprs: &[ExprKind]) -> Result<Value, String> {
    serde_json::to_value(exprs).map_err(|e| format!("cannot serialise tree: {e}"))
}

/// Returns (observation, first complaint).
fn check_mode(text: &str, mode: Mode) -> (Value, Option<String>) {
    let m = mode.name();
    let parsed = match catch_unwind(AssertUnwindSafe(|| parse(text, mode))) {
        Ok(p) => p,
        Err(p) => {
            let msg = panic_msg(p);
            return (json!({"mode": m, "outcome": "panic", "msg": msg}), Some(format!("{m}: parser panicked: {msg}")));
        }
    };
    let (exprs, err) = match &parsed {
        Parsed::Accepted(e) => (e, None),
        Parsed::Rejected(e, msg, sp) => (e, Some((msg.clone(), *sp))),
    };
    let mut obs = json!({"mode": m, "outcome": if err.is_some() { "rejected" } else { "accepted" }, "exprs": exprs.len()});
    let t = match catch_unwind(AssertUnwindSafe(|| tree(exprs))) {
        Ok(Ok(t)) => t,
        Ok(Err(e)) => return (obs, Some(format!("{m}: {e}"))),
        Err(p) => return (obs, Some(format!("{m}: panic while serialising the tree: {}", panic_msg(p)))),
    };
    let mut sp = Vec::new();
    spans(&t, &mut sp);
    for (s, e) in &sp {
        if !span_ok(text, *s, *e) {
            return (obs, Some(format!("{m}: span {s}..{e} of a parsed expression is outside the text (len {})", text.len())));
        }
    }
    if let Some((msg, (s, e))) = &err {
        obs["error"] = json!(msg);
        obs["error_span"] = json!([s, e]);
        if msg.starts_with("LIVELOCK") {
            return (obs, Some(format!("{m}: {msg}")));
        }
        if !span_ok(text, *s as u64, *e as u64) {
            return (obs, Some(format!("{m}: span {s}..{e} of parse error `{msg}` is outside the text (len {})", text.len())));
        }
        return (obs, None);
    }
    // accepted: print / parse idempotence
    let t0 = shape(&t);
    for printer in ["display", "pretty"] {
        let printed = catch_unwind(AssertUnwindSafe(|| {
            exprs
                .iter()
                .map(|e| if printer == "display" { e.to_string() } else { e.to_pretty(60) })
                .collect::<Vec<_>>()
                .join("\n")
        }));
        let printed = match printed {
            Ok(s) => s,
            Err(p) => return (obs, Some(format!("{m}/{printer}: printer panicked: {}", panic_msg(p)))),
        };
        obs[printer] = json!(printed);
        let again = match catch_unwind(AssertUnwindSafe(|| parse(&printed, mode))) {
            Ok(p) => p,
            Err(p) => return (obs, Some(format!("{m}/{printer}: parser panicked on printed text {printed:?}: {}", panic_msg(p)))),
        };
        match again {
            Parsed::Rejected(_, msg, _) => {
                return (obs, Some(format!("{m}/{printer}: printed text {printed:?} does not parse: {msg}")));
            }
            Parsed::Accepted(e2) => {
                let t2 = match tree(&e2) {
                    Ok(t) => shape(&t),
                    Err(e) => return (obs, Some(format!("{m}/{printer}: {e}"))),
                };
                if t2 != t0 {
                    let d = diff(&t0, &t2, "").unwrap_or_default();
                    return (obs, Some(format!("{m}/{printer}: printed text {printed:?} parses to a different tree at {d}")));
                }
            }
        }
    }
    (obs, None)
}

fn main() {
    std::panic::set_hook(Box::new(|_| {}));
    let args: Vec<String> = std::env::args().collect();
    let cases_path = &args[1];
    let out_path = &args[2];
    let mut timeout_ms: u64 = 10_000;
    let mut skip = 0usize;
    let mut i = 3;
    while i < args.len() {
        match args[i].as_str() {
            "--timeout-ms" => { timeout_ms = args[i + 1].parse().unwrap(); i += 2; }
            "--skip" => { skip = args[i + 1].parse().unwrap(); i += 2; }
            _ => { i += 1; }
        }
    }
    let text = std::fs::read_to_string(cases_path).expect("cases file");
    let out = Arc::new(Mutex::new(std::io::BufWriter::new(
        std::fs::OpenOptions::new().create(true).append(true).open(out_path).expect("out file"),
    )));
    let current: Arc<Mutex<Option<(String, Instant)>>> = Arc::new(Mutex::new(None));
    {
        let current = current.clone();
        let out = out.clone();
        std::thread::spawn(move || loop {
            std::thread::sleep(Duration::from_millis(100));
            let cur = current.lock().unwrap().clone();
            if let Some((id, t0)) = cur {
                if t0.elapsed() > Duration::from_millis(timeout_ms) {
                    let mut o = out.lock().unwrap();
                    let _ = writeln!(o, "{}", json!({"timeout": id}));
                    let _ = o.flush();
                    std::process::exit(97);
                }
            }
        });
    }
    for (n, line) in text.lines().enumerate() {
        if n < skip || line.trim().is_empty() { continue; }
        let case: Case = match serde_json::from_str(line) {
            Ok(c) => c,
            Err(e) => { eprintln!("bad case line {n}: {e}"); std::process::exit(2); }
        };
        {
            // the start line must be on disk before the case runs (crash attribution)
            let mut o = out.lock().unwrap();
            writeln!(o, "{}", json!({"start": case.id, "n": n})).unwrap();
            o.flush().unwrap();
        }
        *current.lock().unwrap() = Some((case.id.clone(), Instant::now()));
        let mut gots = Vec::new();
        let mut why = String::new();
        let mut bad_step = 0usize;
        for (si, st) in case.steps.iter().enumerate() {
            let mut obs = Vec::new();
            let mut complaint: Option<String> = None;
            let mut flat_outcome = String::new();
            for mode in [Mode::Flat, Mode::Lower] {
                let (o, c) = check_mode(&st.src, mode);
                if mode == Mode::Flat {
                    flat_outcome = o["outcome"].as_str().unwrap_or("").to_string();
                }
                obs.push(o);
                if complaint.is_none() { complaint = c; }
            }
            if complaint.is_none() {
                let want = match st.class.as_str() { "accept" => "accepted", "reject" => "rejected", _ => "" };
                if !want.is_empty() && want != flat_outcome {
                    complaint = Some(format!("flat: expected the text to be {want}, it was {flat_outcome}"));
                }
            }
            let class = if obs.iter().any(|o| o["outcome"] == "panic") { "panic".to_string() } else { flat_outcome.clone() };
            gots.push(Got { class, emit: vec![], val: None, msg: Some(Value::Array(obs).to_string().chars().take(600).collect()) });
            if why.is_empty() {
                if let Some(c) = complaint { why = c; bad_step = si; }
            }
        }
        *current.lock().unwrap() = None;
        let v = Verdict { id: case.id.clone(), tag: case.tag.clone(), pass: why.is_empty(), why, step: bad_step, got: gots };
        let mut o = out.lock().unwrap();
        writeln!(o, "{}", serde_json::to_string(&v).unwrap()).unwrap();
    }
    let mut o = out.lock().unwrap();
    writeln!(o, "{}", json!({"done": true})).unwrap();
    o.flush().unwrap();
    std::process::exit(0);
}
