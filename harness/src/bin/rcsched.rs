//! Deterministic schedule replayer for crates/steel-rc (C05).
//!
//! usage: rcsched '<behaviour json>'     (one behaviour per process: QUEUE is a global)
//!
//! A behaviour is what BiasedRc.tla prints: `hist` = [[thread, point], ...] where a point is
//! either `op:<kind>` (a thread starts an operation of its script) or the name of a hook point
//! of the instrumented crate.  The real threads run under a baton: every hook point parks the
//! calling thread until the scheduler grants it, so exactly one hooked thread runs between two
//! points and the interleaving is the one TLC chose.  Destruction is quarantined by the hooks
//! (memory is kept), so use-after-free / double destruction are observed, not undefined.
use serde_json::{json, Value};
use std::cell::Cell;
use std::collections::HashSet;
use std::sync::atomic::{AtomicUsize, Ordering};
use std::sync::{Arc, Condvar, Mutex};
use steel_rc::{verif, BiasedRc, QueueHandle};

static DROPS: AtomicUsize = AtomicUsize::new(0);
static BOX_ADDR: AtomicUsize = AtomicUsize::new(0);
struct Payload(#[allow(dead_code)] u64);
impl Drop for Payload {
    fn drop(&mut self) {
        DROPS.fetch_add(1, Ordering::SeqCst);
    }
}

fn point_name(id: u32) -> &'static str {
    match id {
        1 => "INC_READ_TID", 2 => "FINC", 3 => "SINC_LOAD", 4 => "SINC_CAS", 5 => "DEC_READ_TID",
        6 => "FDEC_LOCAL", 7 => "FDEC_LOAD", 8 => "FDEC_CAS", 9 => "FDEC_SET_TID", 10 => "SDEC_LOAD",
        11 => "SDEC_CAS", 12 => "ENQ_READ_TID", 13 => "UNIQ_READ_TID", 14 => "UNIQ_LOAD", 15 => "UNIQ_CAS",
        16 => "MERGE_LOAD", 17 => "MERGE_CAS", 18 => "MERGE_SET_TID", 19 => "DEALLOC", 20 => "TU_READ_TID",
        21 => "TU_LOAD", 22 => "TU_CAS", 23 => "TU_DEALLOC", 24 => "ENQ_PUSH", 25 => "MERGE_BEGIN_U",
        26 => "MERGE_BEGIN_M", 27 => "MERGE_END", 100 => "op", _ => "?",
    }
}

struct State {
    granted: Option<usize>,
    waiting: Vec<Option<(u32, usize)>>,
    done: Vec<bool>,
    trace: Vec<(usize, String)>,
    freed: HashSet<usize>,
    destroys: usize,
    uaf: bool,
    findings: Vec<Value>,
    cur_op: Vec<String>,
}
struct Sched {
    st: Mutex<State>,
    cv: Condvar,
}
static SCHED: Mutex<Option<Arc<Sched>>> = Mutex::new(None);
thread_local! { static ME: Cell<Option<usize>> = const { Cell::new(None) }; }
const OP_START: u32 = 100;

fn hook(id: u32, addr: usize) {
    let Some(me) = ME.with(|m| m.get()) else { return };
    let sched = SCHED.lock().unwrap().as_ref().unwrap().clone();
    let mut st = sched.st.lock().unwrap();
    st.waiting[me] = Some((id, addr));
    sched.cv.notify_all();
    while st.granted != Some(me) {
        st = sched.cv.wait(st).unwrap();
    }
    st.granted = None;
    st.waiting[me] = None;
    let name = if id == OP_START { format!("op:{}", st.cur_op[me]) } else { point_name(id).to_string() };
    st.trace.push((me, name.clone()));
    if addr != 0 && id < OP_START { BOX_ADDR.store(addr, Ordering::SeqCst); }
    if id == verif::DEALLOC || id == verif::TU_DEALLOC {
        st.destroys += 1;
        if !st.freed.insert(addr) {
            st.findings.push(json!({"kind": "double-destroy", "thread": me, "point": name}));
        }
    } else if id < OP_START && addr != 0 && st.freed.contains(&addr) {
        st.uaf = true;
        st.findings.push(json!({"kind": "use-after-free", "thread": me, "point": name}));
    }
}

fn main() {
    let arg = std::env::args().nth(1).expect("behaviour json");
    let beh: Value = serde_json::from_str(&arg).expect("json");
    let hist: Vec<(String, String)> = beh["hist"].as_array().unwrap().iter()
        .map(|p| (p[0].as_str().unwrap().to_string(), p[1].as_str().unwrap().to_string())).collect();
    // thread names -> indices; the creator is "t1"
    let mut names: Vec<String> = vec!["t1".into()];
    for (t, l) in &hist {
        if !names.contains(t) { names.push(t.clone()); }
        if let Some(u) = l.strip_prefix("op:send:") {
            let u = u.trim_matches('"').to_string();
            if !names.contains(&u) { names.push(u); }
        }
    }
    let n = names.len();
    let idx = |t: &str| names.iter().position(|x| x == t).unwrap();
    let mut scripts: Vec<Vec<String>> = vec![vec![]; n];
    for (t, l) in &hist {
        if let Some(op) = l.strip_prefix("op:") { scripts[idx(t)].push(op.replace('"', "")); }
    }
    let schedule: Vec<(usize, String)> = hist.iter().map(|(t, l)| (idx(t), l.replace('"', ""))).collect();

    let sched = Arc::new(Sched {
        st: Mutex::new(State { granted: None, waiting: vec![None; n], done: vec![false; n], trace: vec![],
            freed: HashSet::new(), destroys: 0, uaf: false, findings: vec![], cur_op: vec![String::new(); n] }),
        cv: Condvar::new(),
    });
    *SCHED.lock().unwrap() = Some(sched.clone());
    verif::install(hook);
    let inbox: Arc<Vec<Mutex<Vec<BiasedRc<Payload>>>>> = Arc::new((0..n).map(|_| Mutex::new(Vec::new())).collect());
    let live = Arc::new(AtomicUsize::new(0));
    let excl = Arc::new(AtomicUsize::new(0));
    let finish = Arc::new((Mutex::new(false), Condvar::new()));
    let settle = Arc::new((Mutex::new((0usize, 0usize)), Condvar::new()));   // (go, threads settled)
    let mut handles = vec![];
    for (i, script) in scripts.into_iter().enumerate() {
        let inbox = inbox.clone();
        let sched2 = sched.clone();
        let live = live.clone();
        let excl = excl.clone();
        let finish = finish.clone();
        let settle = settle.clone();
        let names2 = names.clone();
        handles.push(std::thread::spawn(move || {
            let mut mine: Vec<BiasedRc<Payload>> = Vec::new();
            let mut unwrapped: Vec<Payload> = Vec::new();
            let (mut is_registered, mut has_exited) = (i == 0, false);
            if i == 0 {
                steel_rc::register_thread();
                let h = BiasedRc::new(Payload(7));
                mine.push(h);
                live.fetch_add(1, Ordering::SeqCst);
            }
            ME.with(|m| m.set(Some(i)));
            for op in script {
                sched2.st.lock().unwrap().cur_op[i] = op.clone();
                hook(OP_START, 0);
                mine.append(&mut inbox[i].lock().unwrap());
                let parts: Vec<&str> = op.split(':').collect();
                match parts[0] {
                    "clone" => {
                        if let Some(h) = mine.last() {
                            let c = h.clone();
                            mine.push(c);
                            live.fetch_add(1, Ordering::SeqCst);
                        }
                    }
                    "drop" => {
                        if let Some(h) = mine.pop() {
                            live.fetch_sub(1, Ordering::SeqCst);
                            drop(h);
                        }
                    }
                    "get_mut" => {
                        if let Some(h) = mine.last_mut() {
                            if BiasedRc::get_mut(h).is_some() && live.load(Ordering::SeqCst) != 1 {
                                excl.fetch_add(1, Ordering::SeqCst);
                                sched2.st.lock().unwrap().findings.push(json!({"kind": "exclusive-with-others",
                                    "thread": i, "point": "get_mut", "live": live.load(Ordering::SeqCst)}));
                            }
                        }
                    }
                    "try_unwrap" => {
                        if let Some(h) = mine.pop() {
                            match BiasedRc::try_unwrap(h) {
                                Ok(p) => {
                                    let l = live.fetch_sub(1, Ordering::SeqCst);
                                    if l != 1 {
                                        excl.fetch_add(1, Ordering::SeqCst);
                                        sched2.st.lock().unwrap().findings.push(json!({"kind": "exclusive-with-others",
                                            "thread": i, "point": "try_unwrap", "live": l}));
                                    }
                                    unwrapped.push(p);
                                }
                                Err(h) => mine.push(h),
                            }
                        }
                    }
                    "send" => {
                        let u = names2.iter().position(|x| x == parts[1]).unwrap();
                        if let Some(h) = mine.pop() { inbox[u].lock().unwrap().push(h); }
                    }
                    "merge" => { QueueHandle::run_explicit_merge(); }
                    "register" => { steel_rc::register_thread(); is_registered = true; }
                    "exit" => { QueueHandle::finish_thread_merge(); has_exited = true; }
                    _ => {}
                }
                // property monitor after every operation: destroyed while handles are alive?
                let st = &mut *sched2.st.lock().unwrap();
                if !st.freed.is_empty() && live.load(Ordering::SeqCst) > 0
                    && !st.findings.iter().any(|f| f["kind"] == "destroyed-while-held") {
                    st.findings.push(json!({"kind": "destroyed-while-held", "thread": i, "point": format!("op:{op}"),
                        "live": live.load(Ordering::SeqCst)}));
                }
            }
            ME.with(|m| m.set(None));
            {
                let mut st = sched2.st.lock().unwrap();
                st.done[i] = true;
                st.waiting[i] = None;
                sched2.cv.notify_all();
            }
            // keep thread-local identity alive until the run is over, then leak what is left so
            // that thread exit adds no unscripted reference-count traffic
            // SETTLE (after the schedule, outside the baton order; the hook is a no-op for this thread now):
            // every registered thread that has not exited reaches two more collection points.  Whatever the
            // protocol legitimately defers to the owner's next merge happens now; a value that no handle refers
            // to and that is STILL not destroyed afterwards has leaked.
            {
                let (m, cv) = &*settle;
                let mut g = m.lock().unwrap();
                while g.0 == 0 { g = cv.wait(g).unwrap(); }
                drop(g);
                if is_registered && !has_exited {
                    QueueHandle::run_explicit_merge();
                    QueueHandle::run_explicit_merge();
                }
                let mut g = m.lock().unwrap();
                g.1 += 1;
                cv.notify_all();
            }
            let (m, cv) = &*finish;
            let mut g = m.lock().unwrap();
            while !*g { g = cv.wait(g).unwrap(); }
            for h in mine { std::mem::forget(h); }
            drop(unwrapped);
        }));
    }
    // driver: follow the schedule
    let mut diverged: Option<Value> = None;
    let mut k = 0usize;
    loop {
        let mut st = sched.st.lock().unwrap();
        while !(0..n).all(|i| st.done[i] || st.waiting[i].is_some()) || st.granted.is_some() {
            st = sched.cv.wait(st).unwrap();
        }
        if (0..n).all(|i| st.done[i]) { break; }
        let mut pick = None;
        while k < schedule.len() {
            let (c, ref label) = schedule[k];
            k += 1;
            if let Some((id, _)) = st.waiting[c] {
                let name = if id == OP_START { format!("op:{}", st.cur_op[c]) } else { point_name(id).to_string() };
                if &name != label && diverged.is_none() {
                    diverged = Some(json!({"at": k - 1, "thread": c, "expected": label, "got": name}));
                }
                pick = Some(c);
                break;
            } else if diverged.is_none() {
                diverged = Some(json!({"at": k - 1, "thread": c, "expected": label, "got": "thread-finished"}));
            }
        }
        // schedule exhausted (truncated counterexample): let the threads finish their current op
        let pick = pick.unwrap_or_else(|| (0..n).find(|&i| st.waiting[i].is_some()).unwrap());
        st.granted = Some(pick);
        sched.cv.notify_all();
    }
    let a = BOX_ADDR.load(Ordering::SeqCst);
    let proj = if a != 0 { unsafe { verif::project(a) } } else { (true, false, 1, 0, false, false) };
    let drops_at_end = DROPS.load(Ordering::SeqCst);
    {
        let (m, cv) = &*settle;
        let mut g = m.lock().unwrap();
        g.0 = 1;
        cv.notify_all();
        while g.1 < n { g = cv.wait(g).unwrap(); }
    }
    let drops_settled = DROPS.load(Ordering::SeqCst);
    {
        let (m, cv) = &*finish;
        *m.lock().unwrap() = true;
        cv.notify_all();
    }
    for h in handles { h.join().unwrap(); }
    let st = sched.st.lock().unwrap();
    let out = json!({
        "id": beh["id"], "findings": st.findings, "diverged": diverged, "destroys": st.destroys,
        "uaf": st.uaf, "excl": excl.load(Ordering::SeqCst) > 0, "live": live.load(Ordering::SeqCst),
        "payload_drops": DROPS.load(Ordering::SeqCst), "drops_at_end": drops_at_end, "drops_settled": drops_settled, "steps": st.trace.len(),
        "proj": {"owner_some": proj.0, "local": proj.2, "cnt": proj.3, "merged": proj.4, "queued": proj.5},
    });
    println!("{}", out);
}
