//! Generic engine-history replayer: NDJSON cases in, NDJSON verdicts out.
//!
//! usage: replay <cases.ndjson> <out.ndjson> [--timeout-ms N] [--skip K]
//!
//! Every case is announced with a `{"start": id}` line (flushed) before it runs, so that a
//! dead process (native stack overflow, abort from a panic below JIT frames) can be
//! attributed to the case that was running.  A watchdog turns a hang into exit code 97
//! after writing a `{"timeout": id}` line.  The driver restarts after the offending case.
use std::io::Write;
use std::sync::atomic::{AtomicU64, Ordering};
use std::sync::{Arc, Mutex};
use std::time::{Duration, Instant};
use verif_harness::*;

static EPOCH: AtomicU64 = AtomicU64::new(0);

fn main() {
    std::panic::set_hook(Box::new(|_| {}));
    let args: Vec<String> = std::env::args().collect();
    let cases_path = &args[1];
    let out_path = &args[2];
    let mut timeout_ms: u64 = 10_000;
    let mut skip = 0usize;
    let mut i = 3;
    while i < args.len() {
        match args[i].as_str() {
            "--timeout-ms" => { timeout_ms = args[i + 1].parse().unwrap(); i += 2; }
            "--skip" => { skip = args[i + 1].parse().unwrap(); i += 2; }
            _ => { i += 1; }
        }
    }
    // C04 sensors (hooks in steel-core, cfg(steel_verif)): force a full collection every n-th heap
    // allocation, and treat any program access to a reclaimed heap slot as a failure of the case
    if let Ok(n) = std::env::var("VERIF_GC_EVERY") {
        steel::verif::GC_EVERY.store(n.parse().unwrap_or(0), Ordering::SeqCst);
    }
    let check_use_free = std::env::var("VERIF_USE_FREE_CHECK").is_ok();
    // heap accounting sensor (Heap.tla C19a at every allocation that follows a collection / growth / compaction)
    let check_acct = std::env::var("VERIF_ACCT_CHECK").is_ok();
    if check_acct { steel::verif::ACCT_ON.store(true, Ordering::SeqCst); }
    // VM-level event trace of every case (spec/Trace_Vm.tla), see verif_harness::vmrec
    let vmtrace = vmrec::init_from_env();
    let text = std::fs::read_to_string(cases_path).expect("cases file");
    let out = Arc::new(Mutex::new(
        std::fs::OpenOptions::new().create(true).append(true).open(out_path).expect("out file"),
    ));
    let current: Arc<Mutex<Option<(String, Instant)>>> = Arc::new(Mutex::new(None));
    {
        let current = current.clone();
        let out = out.clone();
        std::thread::spawn(move || loop {
            std::thread::sleep(Duration::from_millis(100));
            let cur = current.lock().unwrap().clone();
            if let Some((id, t0)) = cur {
                if t0.elapsed() > Duration::from_millis(timeout_ms) {
                    let mut o = out.lock().unwrap();
                    let _ = writeln!(o, "{}", serde_json::json!({"timeout": id}));
                    let _ = o.flush();
                    std::process::exit(97);
                }
            }
        });
    }
    let log: Log = Arc::new(Mutex::new(Vec::new()));
    let mut shared = new_engine(&log);
    for (n, line) in text.lines().enumerate() {
        if n < skip || line.trim().is_empty() { continue; }
        let case: Case = match serde_json::from_str(line) {
            Ok(c) => c,
            Err(e) => { eprintln!("bad case line {n}: {e}"); std::process::exit(2); }
        };
        {
            let mut o = out.lock().unwrap();
            writeln!(o, "{}", serde_json::json!({"start": case.id, "n": n})).unwrap();
            o.flush().unwrap();
        }
        EPOCH.fetch_add(1, Ordering::SeqCst);
        *current.lock().unwrap() = Some((case.id.clone(), Instant::now()));
        let uniq = format!("{}", n);
        let mut fresh_engine;
        let e = if case.fresh { fresh_engine = new_engine(&log); &mut fresh_engine } else { &mut shared };
        let mut gots = Vec::new();
        let mut why = String::new();
        let mut bad_step = 0usize;
        let mut poisoned = false;
        let mut unplanned = false;
        let use_free0 = steel::verif::USE_FREE.load(Ordering::SeqCst);
        let acct0 = steel::verif::ACCT_MISMATCH.load(Ordering::SeqCst);
        let acct_checks0 = steel::verif::ACCT_CHECKS.load(Ordering::SeqCst);
        let mut host = HostState { uniq: uniq.clone(), ..Default::default() };
        if vmtrace { vmrec::begin_case(&case.id, e); }
        for (si, st) in case.steps.iter().enumerate() {
            let src = st.src.replace("@@", &uniq);
            if vmtrace && si > 0 { vmrec::mark_unit(); }
            *current.lock().unwrap() = Some((case.id.clone(), Instant::now()));
            let g0 = gen_of(e);
            let got = match &st.op {
                Some(op) => run_op(e, &log, &mut host, op),
                None => run_step(e, &log, &src),
            };
            if gen_of(e) != g0 && st.op.as_deref() != Some("force_recycle") { unplanned = true; }
            if got.class == "panic" { poisoned = true; }
            if why.is_empty() {
                if let Some(w) = judge(st, &got) { why = w; bad_step = si; }
            }
            gots.push(got);
            if poisoned { break; }
        }
        if vmtrace { vmrec::end_case(); }
        *current.lock().unwrap() = None;
        if poisoned && !case.fresh {
            // a panic may leave the shared engine in an arbitrary state; replace it
            shared = new_engine(&log);
        }
        let use_free = steel::verif::USE_FREE.load(Ordering::SeqCst) - use_free0;
        if check_use_free && use_free > 0 && why.is_empty() {
            why = format!("use-free: {use_free} program accesses to heap slots the collector had reclaimed");
            bad_step = gots.len().saturating_sub(1);
        }
        let acct = steel::verif::ACCT_MISMATCH.load(Ordering::SeqCst) - acct0;
        if check_acct && acct > 0 && why.is_empty() {
            why = format!("heap accounting: {acct} times the accounted number of free slots differed from the slots actually free when a slot was handed out after a collection (first: {} slots, accounted free {}, actually free {})",
                          steel::verif::ACCT_FIRST[0].load(Ordering::SeqCst), steel::verif::ACCT_FIRST[1].load(Ordering::SeqCst), steel::verif::ACCT_FIRST[2].load(Ordering::SeqCst));
            bad_step = gots.len().saturating_sub(1);
        }
        // "|unplanned-recycle": the engine's global-slot recycler ran during a step that did not ask
        // for it (policy event caused by the accumulated history of a shared engine)
        let vtag = if unplanned { format!("{}|unplanned-recycle", case.tag) } else { case.tag.clone() };
        let vtag = if check_acct { format!("{}|acct-checks={}", vtag, steel::verif::ACCT_CHECKS.load(Ordering::SeqCst) - acct_checks0) } else { vtag };
        let v = Verdict { id: case.id.clone(), tag: vtag, pass: why.is_empty(), why, step: bad_step, got: gots };
        let mut o = out.lock().unwrap();
        writeln!(o, "{}", serde_json::to_string(&v).unwrap()).unwrap();
        o.flush().unwrap();
    }
    let mut o = out.lock().unwrap();
    writeln!(o, "{}", serde_json::json!({"done": true})).unwrap();
    o.flush().unwrap();
    std::process::exit(0);
}
