//! Records protocol-level traces of the real VM's safepoint / stop-the-world handshake
//! (C15 C16 C17) for validation against Trace_Safepoint.tla.
//!
//! usage: vmtrace '<scenario json>'  ->  NDJSON events on stdout, last line = {"end": ...}
//!
//! scenario = { "id", "prelude": scheme, "main": scheme,
//!              "perturb": {"seed": n, "prob_pct": p, "max_us": m},      random delays at hook points
//!              "barriers": [ {"hold": {"ev": E, "who": ROLE}, "until": {"ev": E2, "tgt": ROLE|null, "who": ROLE|null},
//!                             "timeout_ms": n} ],                         directed window widening
//!              "irq": {"after": {"ev": E, "who": ROLE|null, "n": k}},   host interrupt of the engine thread
//!              "watchdog_ms": n }
//! Roles: "T0" is the engine thread, "T1", "T2", ... spawned threads in order of THREAD_START.
//! The hooks (steel::verif, cfg(steel_verif)) call us in phase 0 (no lock: we may delay/block the
//! thread) and phase 1 (verification lock held, immediately before the access: we log).
use serde_json::{json, Value};
use std::collections::HashMap;
use std::sync::atomic::{AtomicBool, Ordering};
use std::sync::{Condvar, Mutex, OnceLock};
use std::time::{Duration, Instant};
use steel::steel_vm::engine::Engine;
use steel::verif as v;

fn ev_name(id: u32) -> &'static str {
    match id {
        1 => "SP_PUBLISH", 2 => "SP_READ_PAUSED", 3 => "SP_PARK", 4 => "SP_RETRACT", 5 => "DISPATCH",
        6 => "POLL_PUBLISH", 7 => "POLL_LOOP_READ", 8 => "POLL_PARK", 9 => "POLL_RETRACT",
        10 => "CTRL_PAUSE", 11 => "CTRL_RESUME", 12 => "CTRL_INTERRUPT", 13 => "CTRL_SUSPEND",
        15 => "SCAN_BEGIN", 16 => "SCAN_END", 17 => "THREAD_START", 18 => "THREAD_EXIT", 19 => "SPAWNED",
        20 => "REGISTERED", 21 => "RAISED", 22 => "STW_BEGIN", 23 => "STW_END", 24 => "ENV_WRITE_BEGIN",
        25 => "ENV_WRITE_END", 26 => "UNPARK", 27 => "HEAP_LOCKED", 28 => "REGISTERING", 29 => "ENUM_WAIT", _ => "?",
    }
}
/// events whose `a` is the identity of the CALLING thread
fn own_event(id: u32) -> bool {
    matches!(id, 1..=9 | 17 | 18 | 21 | 22 | 23)
}

struct Ev {
    os: std::thread::ThreadId,
    id: u32,
    a: usize,
    b: usize,
}
#[derive(Default)]
struct St {
    events: Vec<Ev>,
    roles: HashMap<std::thread::ThreadId, usize>, // os thread -> role index
    ids: HashMap<usize, usize>,                   // controller id -> role index
    next_role: usize,
    last_event: Option<Instant>,
    irq_fire: bool,
    irq_count: usize,
    dispatches: HashMap<usize, usize>,
    holds: HashMap<usize, usize>, // barrier index -> times it held a thread
    started: usize,
    exited: usize,
}
struct Ctl {
    st: Mutex<St>,
    cv: Condvar,
    scenario: Value,
}
static CTL: OnceLock<Ctl> = OnceLock::new();
static ACTIVE: AtomicBool = AtomicBool::new(false);
fn ctl() -> &'static Ctl {
    CTL.get().unwrap()
}

fn role_of(st: &mut St, os: std::thread::ThreadId, id: u32, a: usize) -> usize {
    if let Some(r) = st.roles.get(&os) {
        return *r;
    }
    let r = st.next_role;
    st.next_role += 1;
    st.roles.insert(os, r);
    if own_event(id) {
        st.ids.insert(a, r);
    }
    r
}
fn role_name(r: usize) -> String {
    format!("T{r}")
}
fn matches_pat(pat: &Value, ev: &str, who: &str, tgt: Option<&str>) -> bool {
    if pat["ev"].as_str() != Some(ev) {
        return false;
    }
    if let Some(w) = pat.get("who").and_then(|x| x.as_str()) {
        if w != who {
            return false;
        }
    }
    if let Some(t) = pat.get("tgt").and_then(|x| x.as_str()) {
        if Some(t) != tgt {
            return false;
        }
    }
    true
}

// xorshift per thread
thread_local! { static RNG: std::cell::Cell<u64> = const { std::cell::Cell::new(0) }; }
fn rnd(seed: u64) -> u64 {
    RNG.with(|c| {
        let mut x = c.get();
        if x == 0 {
            let t = format!("{:?}", std::thread::current().id());
            x = seed ^ (t.bytes().fold(1469598103934665603u64, |h, b| (h ^ b as u64).wrapping_mul(1099511628211)));
            if x == 0 { x = 1; }
        }
        x ^= x << 13;
        x ^= x >> 7;
        x ^= x << 17;
        c.set(x);
        x
    })
}

fn hook(id: u32, a: usize, b: usize, phase: u32) {
    if !ACTIVE.load(Ordering::SeqCst) {
        return;
    }
    let c = ctl();
    let os = std::thread::current().id();
    if phase == 0 {
        // identify
        let who = {
            let mut st = c.st.lock().unwrap();
            let r = role_of(&mut st, os, id, a);
            if own_event(id) {
                st.ids.entry(a).or_insert(r);
            }
            role_name(r)
        };
        // random perturbation
        if let Some(p) = c.scenario.get("perturb") {
            let seed = p["seed"].as_u64().unwrap_or(1);
            let prob = p["prob_pct"].as_u64().unwrap_or(0);
            let max_us = p["max_us"].as_u64().unwrap_or(0).max(1);
            if rnd(seed) % 100 < prob {
                let us = rnd(seed) % max_us;
                if us < 3 { std::thread::yield_now(); } else { std::thread::sleep(Duration::from_micros(us)); }
            }
        }
        // barriers: hold this thread here until the release event has been logged
        if let Some(bs) = c.scenario.get("barriers").and_then(|x| x.as_array()) {
            for (bi, bar) in bs.iter().enumerate() {
                let tgt = { let st = c.st.lock().unwrap(); st.ids.get(&a).map(|r| role_name(*r)) };
                if !matches_pat(&bar["hold"], ev_name(id), &who, tgt.as_deref()) {
                    continue;
                }
                {
                    // a barrier holds at most `max` times (default 3): it widens a window, it must
                    // not slow every passage down
                    let mut st = c.st.lock().unwrap();
                    let n = st.holds.entry(bi).or_insert(0);
                    *n += 1;
                    // `skip`: let the first k passages through; `max`: hold at most that many times
                    let skip = bar["skip"].as_u64().unwrap_or(0) as usize;
                    if *n <= skip || *n > skip + bar["max"].as_u64().unwrap_or(3) as usize { continue; }
                }
                let deadline = Instant::now() + Duration::from_millis(bar["timeout_ms"].as_u64().unwrap_or(1000));
                let start_len = { c.st.lock().unwrap().events.len() };
                let mut st = c.st.lock().unwrap();
                loop {
                    // released if the `until` event was logged after we arrived
                    let mut seen = false;
                    for e in &st.events[start_len.min(st.events.len())..] {
                        let w = st.roles.get(&e.os).map(|r| role_name(*r)).unwrap_or_default();
                        let t = st.ids.get(&e.a).map(|r| role_name(*r));
                        if matches_pat(&bar["until"], ev_name(e.id), &w, t.as_deref()) {
                            seen = true;
                            break;
                        }
                    }
                    if seen || Instant::now() >= deadline {
                        break;
                    }
                    let (g, _) = c.cv.wait_timeout(st, Duration::from_millis(20)).unwrap();
                    st = g;
                }
            }
        }
        return;
    }
    // phase 1: verification lock is held by the caller: log
    let mut st = c.st.lock().unwrap();
    let r = role_of(&mut st, os, id, a);
    if own_event(id) {
        st.ids.entry(a).or_insert(r);
    }
    if id == v::DISPATCH {
        *st.dispatches.entry(r).or_insert(0) += 1;
    }
    if id == v::THREAD_START { st.started += 1; }
    if id == v::THREAD_EXIT { st.exited += 1; }
    st.events.push(Ev { os, id, a, b });
    st.last_event = Some(Instant::now());
    // interrupt trigger
    if let Some(irq) = c.scenario.get("irq") {
        let who = role_name(r);
        let tgt = st.ids.get(&a).map(|x| role_name(*x));
        if matches_pat(&irq["after"], ev_name(id), &who, tgt.as_deref()) {
            st.irq_count += 1;
            if st.irq_count == irq["after"]["n"].as_u64().unwrap_or(1) as usize {
                st.irq_fire = true;
            }
        }
    }
    c.cv.notify_all();
}

fn main() {
    let arg = std::env::args().nth(1).expect("scenario json");
    let scenario: Value = serde_json::from_str(&arg).expect("json");
    let watchdog = Duration::from_millis(scenario["watchdog_ms"].as_u64().unwrap_or(8000));
    let _ = CTL.set(Ctl { st: Mutex::new(St::default()), cv: Condvar::new(), scenario: scenario.clone() });
    std::panic::set_hook(Box::new(|_| {}));
    let main_src = scenario["main"].as_str().unwrap_or("").to_string();
    let prelude = scenario["prelude"].as_str().map(|x| x.to_string());
    let done = std::sync::Arc::new(Mutex::new(None::<String>));
    let done2 = done.clone();
    let (tx, rx) = std::sync::mpsc::channel();
    // The engine is created on the thread that runs it: the handle of the engine thread that
    // resume_threads unparks is `std::thread::current()` at creation time.
    let worker = std::thread::spawn(move || {
        let mut engine = Engine::new();
        if let Some(p) = prelude {
            if let Err(e) = engine.compile_and_run_raw_program(p) {
                *done2.lock().unwrap() = Some(format!("prelude-error:{e}"));
                let _ = tx.send(None);
                return;
            }
        }
        let _ = tx.send(Some(engine.get_thread_state_controller()));
        v::install(hook);
        ACTIVE.store(true, Ordering::SeqCst);
        let r = std::panic::catch_unwind(std::panic::AssertUnwindSafe(|| engine.compile_and_run_raw_program(main_src)));
        let s = match r {
            Ok(Ok(v)) => format!("ok:{}", v.last().map(|x| x.to_string()).unwrap_or_default()),
            Ok(Err(e)) => format!("err:{}", e.to_string().lines().next().unwrap_or("")),
            Err(_) => "panic".to_string(),
        };
        *done2.lock().unwrap() = Some(s);
        ctl().cv.notify_all();
        // keep the engine alive until the process exits (dropping it would run unscripted code)
        std::mem::forget(engine);
    });
    let controller = match rx.recv() {
        Ok(Some(c)) => c,
        _ => {
            println!("{}", json!({"end": done.lock().unwrap().clone().unwrap_or("prelude-error".into())}));
            return;
        }
    };
    // supervisor: interrupt trigger + watchdog
    let c = ctl();
    let mut outcome = String::new();
    let mut irq_sent = false;
    let t_start = Instant::now();
    let mut t_irq: Option<Instant> = None;
    loop {
        if let Some(s) = done.lock().unwrap().clone() {
            outcome = s;
            break;
        }
        let mut st = c.st.lock().unwrap();
        if let Some(ms) = scenario["irq"]["after_ms"].as_u64() {
            if !irq_sent && t_start.elapsed() >= Duration::from_millis(ms) { st.irq_fire = true; }
        }
        if st.irq_fire && !irq_sent {
            irq_sent = true;
            drop(st);
            controller.interrupt();
            t_irq = Some(Instant::now());
            continue;
        }
        let idle = st.last_event.map(|t| t.elapsed()).unwrap_or(Duration::ZERO);
        if idle > watchdog && st.last_event.is_some() {
            outcome = "stall".to_string();
            break;
        }
        // an interrupted evaluation must end: give it the watchdog time after the request
        if let Some(t) = t_irq {
            if t.elapsed() > watchdog { outcome = "irq-ignored".to_string(); break; }
        }
        let (g, _) = c.cv.wait_timeout(st, Duration::from_millis(50)).unwrap();
        st = g;
        drop(st);
    }
    // the engine thread is back in the host: do the threads it left behind still make progress?
    if outcome != "stall" && scenario["await_threads"].as_bool().unwrap_or(false) {
        loop {
            let st = c.st.lock().unwrap();
            if st.exited >= st.started { break; }
            let idle = st.last_event.map(|t| t.elapsed()).unwrap_or(Duration::ZERO);
            if idle > watchdog { outcome = format!("stall-threads:{}", outcome); break; }
            let _ = c.cv.wait_timeout(st, Duration::from_millis(50)).unwrap();
        }
    }
    ACTIVE.store(false, Ordering::SeqCst);
    if !outcome.starts_with("stall") && outcome != "irq-ignored" {
        let _ = worker.join();
    }
    let irq_latency_ms = t_irq.map(|t| t.elapsed().as_millis() as u64);
    let st = c.st.lock().unwrap();
    let out = std::io::stdout();
    let mut w = std::io::BufWriter::new(out.lock());
    use std::io::Write;
    for (i, e) in st.events.iter().enumerate() {
        let who = st.roles.get(&e.os).map(|r| role_name(*r)).unwrap_or("?".into());
        let tgt = st.ids.get(&e.a).map(|r| role_name(*r)).unwrap_or(format!("id{:x}", e.a));
        writeln!(w, "{}", json!({"seq": i + 1, "th": who, "ev": ev_name(e.id), "tgt": tgt, "b": e.b})).unwrap();
    }
    let last: HashMap<String, String> = {
        let mut m = HashMap::new();
        for e in st.events.iter() {
            let who = st.roles.get(&e.os).map(|r| role_name(*r)).unwrap_or("?".into());
            m.insert(who, ev_name(e.id).to_string());
        }
        m
    };
    writeln!(w, "{}", json!({"end": outcome, "events": st.events.len(), "irq_sent": irq_sent, "use_free": v::USE_FREE.load(Ordering::SeqCst), "irq_latency_ms": irq_latency_ms.map(|x| x as i64).unwrap_or(-1), "last": last,
        "dispatches": st.dispatches.iter().map(|(k, v)| (role_name(*k), *v)).collect::<HashMap<_, _>>()})).unwrap();
    w.flush().unwrap();
    std::process::exit(0);
}
