//! Dump the real engine's procedure table (C07, Robust.tla part 1).
//!
//! usage: builtins <out.ndjson>
//!        builtins --eval '<unit>' ['<unit>' ...]      (debugging aid, see main)
//!
//! One JSON object per line:
//!   {"name": "...", "src": "global"|"module", "module": [..], "kind": "FuncV|MutFunc|BuiltIn|Closure|BoxedFunction|value:<..>",
//!    "ident": "<identity of the procedure object: aliases share it>",
//!    "arity": {"t": "exact|atleast|atmost|range|unknown", "lo": n, "hi": n}}
//! `global` = the identifier is bound in a freshly created engine's top level (prelude
//! loaded); `module` = registered in a builtin module but not bound at top level.
//! Nothing here is a table written by hand: names come from Engine::globals(), arities from
//! the metadata the engine registered for the function pointer / from the closure object.
use std::collections::{BTreeMap, BTreeSet};
use std::io::Write;
use steel::steel_vm::builtin::Arity;
use steel::steel_vm::engine::Engine;
use steel::SteelVal;

fn arity_json(a: &Arity) -> serde_json::Value {
    match a {
        Arity::Exact(n) => serde_json::json!({"t": "exact", "lo": n, "hi": n}),
        Arity::AtLeast(n) => serde_json::json!({"t": "atleast", "lo": n, "hi": -1}),
        Arity::AtMost(n) => serde_json::json!({"t": "atmost", "lo": 0, "hi": n}),
        Arity::Range(a, b) => serde_json::json!({"t": "range", "lo": a, "hi": b}),
    }
}

fn kind_of(v: &SteelVal) -> String {
    match v {
        SteelVal::FuncV(_) => "FuncV".into(),
        SteelVal::MutFunc(_) => "MutFunc".into(),
        SteelVal::BuiltIn(_) => "BuiltIn".into(),
        SteelVal::Closure(_) => "Closure".into(),
        SteelVal::BoxedFunction(_) => "BoxedFunction".into(),
        SteelVal::FutureFunc(_) => "FutureFunc".into(),
        SteelVal::ContinuationFunction(_) => "Continuation".into(),
        other => {
            let s = format!("{:?}", other);
            let head: String = s.chars().take_while(|c| c.is_alphanumeric() || *c == '_').collect();
            format!("value:{head}")
        }
    }
}

/// identity of the procedure object (aliases of one function share it)
fn ident(v: &SteelVal) -> String {
    match v {
        SteelVal::FuncV(f) => format!("f{:x}", *f as usize),
        SteelVal::MutFunc(f) => format!("m{:x}", *f as usize),
        SteelVal::BuiltIn(f) => format!("b{:x}", *f as usize),
        SteelVal::Closure(c) => format!("c{:x}", &**c as *const _ as usize),
        SteelVal::BoxedFunction(b) => format!("x{:x}", &**b as *const _ as usize),
        _ => String::new(),
    }
}

fn main() {
    let args: Vec<String> = std::env::args().collect();
    if args.len() >= 3 && args[1] == "--eval" {
        // debugging aid: evaluate the given units on one engine with the DEFAULT panic hook, so
        // that the message of a panic that aborts the process (JIT frames) reaches stderr
        let mut e = Engine::new();
        for src in &args[2..] {
            match e.compile_and_run_raw_program(src.clone()) {
                Ok(vs) => println!("ok {:?}", vs.last().map(|v| v.to_string())),
                Err(err) => println!("err {}", err.to_string().lines().next().unwrap_or("")),
            }
        }
        std::process::exit(0);
    }
    let out_path = &args[1];
    let e = Engine::new();
    // module tables: name -> modules, name -> arity
    let mut in_modules: BTreeMap<String, BTreeSet<String>> = BTreeMap::new();
    let mut module_vals: BTreeMap<String, SteelVal> = BTreeMap::new();
    {
        let mods = e.builtin_modules().inner();
        for (mname, m) in mods.iter() {
            for n in m.names() {
                in_modules.entry(n.clone()).or_default().insert(mname.to_string());
                if let Some(v) = m.try_get_ref(&n) {
                    module_vals.entry(n).or_insert(v);
                }
            }
        }
    }
    let arity_of = |name: &str, v: &SteelVal| -> serde_json::Value {
        match v {
            SteelVal::Closure(c) => {
                if c.is_multi_arity() {
                    serde_json::json!({"t": "atleast", "lo": c.arity().saturating_sub(1), "hi": -1})
                } else {
                    serde_json::json!({"t": "exact", "lo": c.arity(), "hi": c.arity()})
                }
            }
            SteelVal::BoxedFunction(b) => match b.arity {
                Some(n) => serde_json::json!({"t": "exact", "lo": n, "hi": n}),
                None => serde_json::json!({"t": "unknown", "lo": 0, "hi": -1}),
            },
            SteelVal::FuncV(_) | SteelVal::MutFunc(_) | SteelVal::BuiltIn(_) => {
                let mods = e.builtin_modules().inner();
                for m in mods.values() {
                    if let Some(md) = m.search(v.clone()) {
                        return arity_json(&md.arity);
                    }
                }
                let _ = name;
                serde_json::json!({"t": "unknown", "lo": 0, "hi": -1})
            }
            _ => serde_json::json!({"t": "none", "lo": 0, "hi": 0}),
        }
    };
    let mut out = std::fs::File::create(out_path).expect("out file");
    let mut seen = BTreeSet::new();
    let globals: Vec<String> = e.globals().iter().map(|x| x.resolve().to_string()).collect();
    for name in globals {
        if !seen.insert(name.clone()) {
            continue;
        }
        let v = match e.extract_value(&name) {
            Ok(v) => v,
            Err(_) => continue,
        };
        let mods: Vec<String> = in_modules.get(&name).map(|s| s.iter().cloned().collect()).unwrap_or_default();
        writeln!(
            out,
            "{}",
            serde_json::json!({"name": name, "src": "global", "module": mods, "kind": kind_of(&v), "ident": ident(&v), "arity": arity_of(&name, &v)})
        )
        .unwrap();
    }
    for (name, v) in module_vals.iter() {
        if seen.contains(name) {
            continue;
        }
        let mods: Vec<String> = in_modules.get(name).map(|s| s.iter().cloned().collect()).unwrap_or_default();
        writeln!(
            out,
            "{}",
            serde_json::json!({"name": name, "src": "module", "module": mods, "kind": kind_of(v), "ident": ident(v), "arity": arity_of(name, v)})
        )
        .unwrap();
    }
    std::process::exit(0);
}
