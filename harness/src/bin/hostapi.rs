//! Host-API replayer (C20): NDJSON behaviours in, NDJSON verdicts out.
//!
//! usage: hostapi <cases.ndjson> <out.ndjson> [--timeout-ms N] [--skip K]
//!
//! Same process protocol as `replay` (a `{"start": id, "n": n}` line before every behaviour, one
//! verdict line `{"id","tag","pass","why","step","got"}` after it, `{"done": true}` at the end, exit code
//! 97 from the watchdog after a `{"timeout": id}` line) so that `vlib.replay(..., binary="hostapi")`
//! can drive it and attribute a dead process to the behaviour that was running.
//!
//! A behaviour is a list of steps (JSON objects).  Every step carries a human readable `src`; the
//! kind of a step is decided by its keys:
//!
//!   Scheme step       {"src": text, "eng": 1|2, "class", "emit", "val", "acc", "calls"}
//!                     evaluated with Engine::run on engine `eng` (inside the lending call when one
//!                     is active: the nursery interpreter below is recursive).
//!   lending steps     {"h": "open", "g": n, "eng": e, "refs": [{"obj": "A", "mode": "mut"|"ro"} ..]}
//!                        Engine::with_mut_reference / with_immutable_reference (+ LifetimeGuard::with_*)
//!                     {"h": "enter", "g": n, "api": "consume"|"consume_once"}
//!                        LifetimeGuard::consume*: the i-th lent reference is bound to the global
//!                        `r<g>_<i>` with Engine::update_value; the steps up to the matching
//!                        {"h": "exit", "g": n} run INSIDE the thunk; returning drops the guard
//!                     {"h": "drop", "g": n}     drop an unconsumed guard
//!                     {"h": "rwr", "eng", "obj", "bind", "script"}   Engine::run_with_reference
//!                     {"h": "call", "eng", "fn", "kept": k}  call_function_by_name_with_args(fn, [k-th
//!                        value the script handed to the host function `host-keep!`])
//!                     {"h": "await-parked"} / {"h": "release"}  a script thread is inside the blocking host
//!                        method `cell-park` (val "parked" | "not-parked") / the host lets it finish
//!                     {"h": "poke", "obj"}   the replayer itself touches an object outside any loan
//!                        (self-test of the late-access sensor: must make the behaviour fail)
//!   conversion steps  {"h": "extract", "ty", "name"}            Engine::extract::<T>(name)
//!                     {"h": "h2s", "ty", "host": json, "fn"}    T -> IntoSteelVal -> script function
//!                        (call_function_by_name_with_args) -> FromSteelVal -> T
//!                     {"h": "ext", "ty", "host": json, "name"}  Engine::register_external_value
//!                     {"h": "into", "ty", "host": json, "name"} one-directional types (u128, &str)
//!
//! Observables compared with the expectation of a step (only the keys that are present):
//!   class  ok | err | err:Kind | any | noncrash          emit  values printed by the host fn `emit`
//!   val    printed last value                             back  host-side value (JSON rendering)
//!   calls  invocations of recording host functions [{"fn": name, "args": [json ..]}]
//!   acc    accesses to lent host objects ["A.get_mut" ..]
//! An access to a host object outside its lending scope is logged as "<obj>.<method>!LATE" and
//! fails the behaviour whatever the expectation says (the objects are leaked boxes, so a late
//! access is data, not a use after free).
use serde_json::{json, Value};
use std::collections::{HashMap, HashSet};
use std::hash::Hash;
use std::io::Write;
use std::panic::{catch_unwind, AssertUnwindSafe};
use std::sync::atomic::{AtomicI64, Ordering};
use std::sync::{Arc, Condvar, Mutex};
use std::time::{Duration, Instant};
use steel::gc::unsafe_erased_pointers::CustomReference;
use steel::rvals::{FromSteelVal, IntoSteelVal};
use steel::steel_vm::builtin::BuiltInModule;
use steel::steel_vm::engine::{Engine, LifetimeGuard};
use steel::steel_vm::register_fn::{MarkerWrapper7, MarkerWrapper8, RegisterFn};
use steel::SteelVal;
use steel_derive::Steel;
use verif_harness::{class_matches, kind_name, new_engine, normalize, run_step, Log};

// --------------------------------------------------------------------------- observation channels

static ACCESS: Mutex<Vec<String>> = Mutex::new(Vec::new());
static CALLS: Mutex<Vec<Value>> = Mutex::new(Vec::new());
static KEPT: Mutex<Vec<SteelVal>> = Mutex::new(Vec::new());
/// (a use is parked inside a host method, the host has released it)
static PARK: Mutex<(bool, bool)> = Mutex::new((false, false));
static PARK_CV: Condvar = Condvar::new();
static CASE_GEN: std::sync::atomic::AtomicU64 = std::sync::atomic::AtomicU64::new(0);

fn record_call(name: &str, args: Vec<Value>) {
    CALLS.lock().unwrap().push(json!({"fn": name, "args": args}));
}

// --------------------------------------------------------------------------- lent host objects

/// Part of a lent object handed out as a derived (child) reference.
pub struct Inner {
    name: String,
    v: i64,
    scope: Arc<AtomicI64>,
}

/// The host object that is lent.  `scope` is the number of guards it is currently lent under (shared
/// loans count), 0 when the host has it back ("poisoned" for the script).
pub struct Cell {
    name: String,
    value: i64,
    scope: Arc<AtomicI64>,
    inner: Inner,
}
impl CustomReference for Cell {}
steel::custom_reference!(Cell);
impl CustomReference for Inner {}
steel::custom_reference!(Inner);

fn touch(name: &str, scope: &AtomicI64, method: &str) {
    let late = scope.load(Ordering::SeqCst) == 0;
    ACCESS.lock().unwrap().push(format!("{name}.{method}{}", if late { "!LATE" } else { "" }));
}

impl Cell {
    fn new(name: &str, value: i64) -> Cell {
        let scope = Arc::new(AtomicI64::new(0));
        Cell {
            name: name.to_string(),
            value,
            scope: scope.clone(),
            inner: Inner { name: format!("{name}.inner"), v: value + 1, scope },
        }
    }
    fn get(&self) -> i64 {
        touch(&self.name, &self.scope, "get");
        self.value
    }
    fn get_mut(&mut self) -> i64 {
        touch(&self.name, &self.scope, "get_mut");
        self.value
    }
    fn set(&mut self, v: i64) {
        touch(&self.name, &self.scope, "set");
        self.value = v;
    }
    /// A use that is still in progress when the host wants its object back: announces itself, waits
    /// for the host's release, then touches the object once more.
    fn park(&mut self) -> i64 {
        let gen = CASE_GEN.load(Ordering::SeqCst);
        touch(&self.name, &self.scope, "park_begin");
        let mut st = PARK.lock().unwrap();
        st.0 = true;
        PARK_CV.notify_all();
        let t0 = Instant::now();
        while !st.1 && t0.elapsed() < Duration::from_millis(20_000) && CASE_GEN.load(Ordering::SeqCst) == gen {
            st = PARK_CV.wait_timeout(st, Duration::from_millis(20)).unwrap().0;
        }
        drop(st);
        // a thread left over from an earlier behaviour must not write into the log of the current one
        if CASE_GEN.load(Ordering::SeqCst) == gen {
            touch(&self.name, &self.scope, "park_end");
        }
        self.value
    }
    fn inner_mut(&mut self) -> &mut Inner {
        touch(&self.name, &self.scope, "inner_mut");
        &mut self.inner
    }
    fn inner_ro(&mut self) -> &Inner {
        touch(&self.name, &self.scope, "inner_ro");
        &self.inner
    }
}
impl Inner {
    fn iget(&self) -> i64 {
        touch(&self.name, &self.scope, "get");
        self.v
    }
    fn iget_mut(&mut self) -> i64 {
        touch(&self.name, &self.scope, "get_mut");
        self.v
    }
    fn iset(&mut self, v: i64) {
        touch(&self.name, &self.scope, "set");
        self.v = v;
    }
}

/// A plain registered value used as the by-value receiver of the 4-argument signature shape
/// `Fn(&mut SELF, AREA, &mut FRAME, &mut CTX)` (the only shape that takes two lent references).
#[derive(Clone, Steel)]
pub struct Tok {
    n: i64,
}

fn cell_pair(t: &mut Tok, k: i64, a: &mut Cell, b: &mut Cell) -> i64 {
    t.n += 1;
    touch(&a.name, &a.scope, "pair");
    touch(&b.name, &b.scope, "pair");
    a.value + b.value + k
}

/// Signature shapes with a lent receiver and a slice parameter: `Fn(&mut SELF, &[INNER], F)` and
/// `Fn(&mut SELF, &[INNER])`.  The same function is registered on the engine and in a built-in module
/// (the wrappers are generated separately for Engine and BuiltInModule).
fn cell_addall(c: &mut Cell, xs: &[i64], k: i64) -> i64 {
    touch(&c.name, &c.scope, "addall");
    record_call("cell-addall", vec![Value::Array(xs.iter().map(|x| x.to_json()).collect()), k.to_json()]);
    c.value.wrapping_add(xs.iter().fold(0i64, |a, b| a.wrapping_add(*b))).wrapping_add(k)
}
fn cell_sumall(c: &mut Cell, xs: &[i64]) -> i64 {
    touch(&c.name, &c.scope, "sumall");
    record_call("cell-sumall", vec![Value::Array(xs.iter().map(|x| x.to_json()).collect())]);
    c.value.wrapping_add(xs.iter().fold(0i64, |a, b| a.wrapping_add(*b)))
}

fn register_nursery(e: &mut Engine) {
    e.register_fn("cell-addall", cell_addall);
    e.register_fn("cell-sumall", cell_sumall);
    let mut m = BuiltInModule::new("verif/host");
    m.register_fn("m-cell-addall", cell_addall);
    m.register_fn("m-cell-sumall", cell_sumall);
    m.register_fn("m-cell-get-mut", Cell::get_mut);
    m.register_fn("m-f2", |a: i32, b: String| -> i32 { record_call("m-f2", vec![a.to_json(), b.to_json()]); 2 });
    e.register_module(m);
    e.run("(require-builtin verif/host)").expect("require-builtin verif/host");
    e.register_fn("cell-get", Cell::get);
    e.register_fn("cell-get-mut", Cell::get_mut);
    e.register_fn("cell-set!", Cell::set);
    e.register_fn("cell-park", Cell::park);
    RegisterFn::<_, MarkerWrapper7<(Cell, Inner, Inner, Cell)>, Inner>::register_fn(e, "cell-inner-mut", Cell::inner_mut);
    RegisterFn::<_, MarkerWrapper8<(Cell, Inner, Inner, Cell)>, Inner>::register_fn(e, "cell-inner-ro", Cell::inner_ro);
    e.register_fn("inner-get", Inner::iget);
    e.register_fn("inner-get-mut", Inner::iget_mut);
    e.register_fn("inner-set!", Inner::iset);
    e.register_fn("cell-pair", cell_pair);
    e.register_fn("host-id", |v: SteelVal| -> SteelVal { v });
    e.register_fn("host-keep!", |v: SteelVal| -> usize {
        let mut k = KEPT.lock().unwrap();
        k.push(v);
        k.len() - 1
    });
    e.register_external_value("tok", Tok { n: 0 }).unwrap();
    for g in 1..=4 {
        for k in 0..2 {
            e.register_value(&format!("r{g}_{k}"), SteelVal::Void);
        }
    }
}

// --------------------------------------------------------------------------- host values <-> JSON

/// JSON rendering of host values, independent of Steel: integers as decimal strings (128 bit),
/// floats as Rust's `{:?}` text, chars as "U+XXXX", Option as [] / [x], maps and sets as sorted arrays.
trait HostVal: Sized {
    fn from_json(v: &Value) -> Option<Self>;
    fn to_json(&self) -> Value;
}
macro_rules! host_int {
    ($($t:ty),*) => {$(
        impl HostVal for $t {
            fn from_json(v: &Value) -> Option<Self> { v.as_str()?.parse().ok() }
            fn to_json(&self) -> Value { Value::String(self.to_string()) }
        }
    )*};
}
host_int!(i8, i16, i32, i64, isize, u8, u16, u32, u64, u128, usize);
macro_rules! host_float {
    ($($t:ty),*) => {$(
        impl HostVal for $t {
            fn from_json(v: &Value) -> Option<Self> { v.as_str()?.parse().ok() }
            fn to_json(&self) -> Value { Value::String(format!("{:?}", self)) }
        }
    )*};
}
host_float!(f32, f64);
impl HostVal for bool {
    fn from_json(v: &Value) -> Option<Self> { v.as_bool() }
    fn to_json(&self) -> Value { Value::Bool(*self) }
}
impl HostVal for char {
    fn from_json(v: &Value) -> Option<Self> {
        char::from_u32(u32::from_str_radix(v.as_str()?.strip_prefix("U+")?, 16).ok()?)
    }
    fn to_json(&self) -> Value { Value::String(format!("U+{:04X}", *self as u32)) }
}
impl HostVal for String {
    fn from_json(v: &Value) -> Option<Self> { v.as_str().map(|s| s.to_string()) }
    fn to_json(&self) -> Value { Value::String(self.clone()) }
}
impl HostVal for () {
    fn from_json(v: &Value) -> Option<Self> { if v.as_str()? == "unit" { Some(()) } else { None } }
    fn to_json(&self) -> Value { Value::String("unit".into()) }
}
impl<T: HostVal> HostVal for Option<T> {
    fn from_json(v: &Value) -> Option<Self> {
        let a = v.as_array()?;
        match a.len() { 0 => Some(None), 1 => Some(Some(T::from_json(&a[0])?)), _ => None }
    }
    fn to_json(&self) -> Value { match self { None => json!([]), Some(x) => json!([x.to_json()]) } }
}
impl<T: HostVal> HostVal for Vec<T> {
    fn from_json(v: &Value) -> Option<Self> { v.as_array()?.iter().map(T::from_json).collect() }
    fn to_json(&self) -> Value { Value::Array(self.iter().map(|x| x.to_json()).collect()) }
}
impl<A: HostVal, B: HostVal> HostVal for (A, B) {
    fn from_json(v: &Value) -> Option<Self> {
        let a = v.as_array()?;
        if a.len() != 2 { return None; }
        Some((A::from_json(&a[0])?, B::from_json(&a[1])?))
    }
    fn to_json(&self) -> Value { json!([self.0.to_json(), self.1.to_json()]) }
}
fn sorted(mut v: Vec<Value>) -> Value {
    v.sort_by_key(|x| x.to_string());
    Value::Array(v)
}
impl<K: HostVal + Eq + Hash, V: HostVal> HostVal for HashMap<K, V> {
    fn from_json(v: &Value) -> Option<Self> {
        v.as_array()?.iter().map(|kv| { let p = kv.as_array()?; Some((K::from_json(p.first()?)?, V::from_json(p.get(1)?)?)) }).collect()
    }
    fn to_json(&self) -> Value { sorted(self.iter().map(|(k, v)| json!([k.to_json(), v.to_json()])).collect()) }
}
impl<T: HostVal + Eq + Hash> HostVal for HashSet<T> {
    fn from_json(v: &Value) -> Option<Self> { v.as_array()?.iter().map(T::from_json).collect() }
    fn to_json(&self) -> Value { sorted(self.iter().map(|x| x.to_json()).collect()) }
}
impl<T: HostVal, E: HostVal> HostVal for Result<T, E> {
    fn from_json(v: &Value) -> Option<Self> {
        if let Some(x) = v.get("ok") { Some(Ok(T::from_json(x)?)) } else { Some(Err(E::from_json(v.get("err")?)?)) }
    }
    fn to_json(&self) -> Value { match self { Ok(x) => json!({"ok": x.to_json()}), Err(e) => json!({"err": e.to_json()}) } }
}

/// A registered struct (`#[derive(Steel)]`), moved across the boundary by value (Clone) and by
/// reference (`&P`, `&mut P` receivers).
#[derive(Clone, Debug, PartialEq, Steel)]
#[steel(equality)]
pub struct P {
    x: i32,
    s: String,
}
impl HostVal for P {
    fn from_json(v: &Value) -> Option<Self> { Some(P { x: i32::from_json(v.get("x")?)?, s: String::from_json(v.get("s")?)? }) }
    fn to_json(&self) -> Value { json!({"x": self.x.to_json(), "s": self.s.to_json()}) }
}
/// A second registered struct: the wrong kind of opaque value.
#[derive(Clone, Debug, PartialEq, Steel)]
pub struct Q {
    y: i32,
}

fn err_class(e: &steel::SteelErr) -> (String, String) {
    (format!("err:{}", kind_name(e.kind())), e.to_string().lines().next().unwrap_or("").chars().take(200).collect())
}

/// One entry per host type with conversions in both directions: an identity function
/// `id-<name> : T -> T` that records what it received, Engine::extract::<T>, IntoSteelVal,
/// FromSteelVal and Engine::register_external_value.
macro_rules! type_table {
    ($($name:literal => $t:ty),* $(,)?) => {
        fn register_id_fns(e: &mut Engine) {
            $( e.register_fn(concat!("id-", $name), |x: $t| -> $t { record_call(concat!("id-", $name), vec![x.to_json()]); x }); )*
        }
        fn op_extract(e: &Engine, ty: &str, name: &str) -> Result<Result<Value, (String, String)>, String> {
            match ty {
                $( $name => Ok(e.extract::<$t>(name).map(|v| v.to_json()).map_err(|x| err_class(&x))), )*
                _ => Err(format!("unknown type {ty}")),
            }
        }
        fn op_into(ty: &str, host: &Value) -> Result<Result<SteelVal, (String, String)>, String> {
            match ty {
                $( $name => Ok(<$t>::from_json(host).ok_or_else(|| format!("bad host value {host} for {ty}"))?.into_steelval().map_err(|x| err_class(&x))), )*
                "u128" => Ok(u128::from_json(host).ok_or_else(|| format!("bad host value {host} for {ty}"))?.into_steelval().map_err(|x| err_class(&x))),
                "str" => Ok(host.as_str().ok_or_else(|| format!("bad host value {host} for {ty}"))?.into_steelval().map_err(|x| err_class(&x))),
                _ => Err(format!("unknown type {ty}")),
            }
        }
        fn op_from(ty: &str, v: &SteelVal) -> Result<Result<Value, (String, String)>, String> {
            match ty {
                $( $name => Ok(<$t>::from_steelval(v).map(|x| x.to_json()).map_err(|x| err_class(&x))), )*
                _ => Err(format!("unknown type {ty}")),
            }
        }
        fn op_ext(e: &mut Engine, ty: &str, host: &Value, name: &str) -> Result<Result<(), (String, String)>, String> {
            match ty {
                $( $name => {
                    let v = <$t>::from_json(host).ok_or_else(|| format!("bad host value {host} for {ty}"))?;
                    Ok(e.register_external_value::<$t>(name, v).map(|_| ()).map_err(|x| err_class(&x)))
                } )*
                _ => Err(format!("unknown type {ty}")),
            }
        }
    };
}
type_table! {
    "i8" => i8, "i16" => i16, "i32" => i32, "i64" => i64, "isize" => isize,
    "u8" => u8, "u16" => u16, "u32" => u32, "u64" => u64, "usize" => usize,
    "f32" => f32, "f64" => f64, "bool" => bool, "char" => char, "string" => String, "unit" => (),
    "opt-i32" => Option<i32>, "opt-bool" => Option<bool>, "opt-string" => Option<String>,
    "opt-opt-i32" => Option<Option<i32>>, "opt-vec-i32" => Option<Vec<i32>>,
    "vec-i32" => Vec<i32>, "vec-u8" => Vec<u8>, "vec-string" => Vec<String>, "vec-vec-i32" => Vec<Vec<i32>>,
    "vec-opt-i32" => Vec<Option<i32>>,
    "map-string-i32" => HashMap<String, i32>, "map-i32-vec-i32" => HashMap<i32, Vec<i32>>,
    "set-i32" => HashSet<i32>, "set-string" => HashSet<String>,
    "pair-i32-string" => (i32, String),
    "res-i32-string" => Result<i32, String>,
    "p" => P,
}

/// Recording functions, one per signature shape (arity 0..4, Option argument, `&T` / `&mut T`
/// receivers of a registered struct, `Fn(&A, &B)`, `Fn(A, &B)`, and a 16-argument function).
fn register_shapes(e: &mut Engine) {
    e.register_fn("f0", || -> i32 { record_call("f0", vec![]); 0 });
    e.register_fn("f1", |a: i32| -> i32 { record_call("f1", vec![a.to_json()]); 1 });
    e.register_fn("f2", |a: i32, b: String| -> i32 { record_call("f2", vec![a.to_json(), b.to_json()]); 2 });
    e.register_fn("f3", |a: i32, b: String, c: bool| -> i32 { record_call("f3", vec![a.to_json(), b.to_json(), c.to_json()]); 3 });
    e.register_fn("f4", |a: i32, b: String, c: bool, d: char| -> i32 {
        record_call("f4", vec![a.to_json(), b.to_json(), c.to_json(), d.to_json()]);
        4
    });
    e.register_fn("fo", |a: Option<i32>, b: u8| -> i32 { record_call("fo", vec![a.to_json(), b.to_json()]); 5 });
    e.register_fn("mk-p", |x: i32, s: String| -> P { P { x, s } });
    e.register_fn("mk-q", |y: i32| -> Q { Q { y } });
    // observers that do not record (used by the oracle's observation expressions)
    e.register_fn("p-get-x", |p: &P| -> i32 { p.x });
    e.register_fn("p-get-s", |p: &P| -> String { p.s.clone() });
    e.register_fn("p-x", |p: &P| -> i32 { record_call("p-x", vec![p.to_json()]); p.x });
    e.register_fn("p-add", |p: &P, k: i32, t: String| -> i32 { record_call("p-add", vec![p.to_json(), k.to_json(), t.to_json()]); p.x.wrapping_add(k) });
    e.register_fn("p-set-x!", |p: &mut P, x: i32| { record_call("p-set-x!", vec![p.to_json(), x.to_json()]); p.x = x; });
    e.register_fn("p-bump!", |p: &mut P| -> i32 { record_call("p-bump!", vec![p.to_json()]); p.x = p.x.wrapping_add(1); p.x });
    e.register_fn("p-same-x?", |a: &P, b: &P| -> bool { record_call("p-same-x?", vec![a.to_json(), b.to_json()]); a.x == b.x });
    e.register_fn("p-scale", |k: i32, p: &P| -> i32 { record_call("p-scale", vec![k.to_json(), p.to_json()]); k.wrapping_mul(p.x) });
    e.register_fn(
        "f16",
        |a: i32, b: i32, c: i32, d: i32, e_: i32, f: i32, g: i32, h: i32, i: i32, j: i32, k: i32, l: i32, m: i32, n: i32, o: i32, p: i32| -> i32 {
            record_call("f16", [a, b, c, d, e_, f, g, h, i, j, k, l, m, n, o, p].iter().map(|x| x.to_json()).collect());
            16
        },
    );
}

// --------------------------------------------------------------------------- the interpreter

struct GuardRec {
    guard: LifetimeGuard<'static>,
    eng: usize,
    scopes: Vec<Arc<AtomicI64>>,
}

struct Interp<'c> {
    engines: [*mut Engine; 2],
    objs: HashMap<String, *mut Cell>,
    guards: HashMap<i64, GuardRec>,
    steps: &'c [Value],
    uniq: String,
    log: Log,
    gots: Vec<Value>,
    why: String,
    bad: usize,
    tick: Arc<Mutex<Option<(String, Instant, usize)>>>,
    id: String,
}

fn s(v: &Value, k: &str) -> String {
    v.get(k).and_then(|x| x.as_str()).unwrap_or("").to_string()
}

impl<'c> Interp<'c> {
    fn eng(&self, st: &Value) -> Result<usize, String> {
        let e = st.get("eng").and_then(|x| x.as_i64()).unwrap_or(1);
        if e == 1 || e == 2 { Ok((e - 1) as usize) } else { Err(format!("bad engine {e}")) }
    }
    fn engine(&self, k: usize) -> &'static mut Engine {
        unsafe { &mut *self.engines[k] }
    }
    fn obj(&mut self, name: &str) -> *mut Cell {
        *self.objs.entry(name.to_string()).or_insert_with(|| {
            let v = match name { "A" => 100, "B" => 200, _ => 300 };
            Box::into_raw(Box::new(Cell::new(name, v)))
        })
    }

    /// Compare one observation with the step's expectation and store it.
    fn settle(&mut self, idx: usize, st: &Value, mut got: Value) {
        // "hold": the accesses of this step are accounted to the next one (a script thread logs
        // asynchronously: spawn + await-parked and release + join are observed as one)
        let hold = st.get("hold").and_then(|x| x.as_bool()).unwrap_or(false);
        let acc: Vec<String> = if hold { Vec::new() } else { std::mem::take(&mut *ACCESS.lock().unwrap()) };
        let calls: Vec<Value> = std::mem::take(&mut *CALLS.lock().unwrap());
        let mut why = None;
        let class = s(&got, "class");
        if let Some(l) = acc.iter().find(|a| a.ends_with("!LATE")) {
            why = Some(format!("late access: host object touched outside its lending scope ({l})"));
        }
        if why.is_none() {
            let exp = st.get("class").and_then(|x| x.as_str()).unwrap_or("any");
            if !class_matches(exp, &class) {
                why = Some(format!("class: expected {exp} got {class} ({})", s(&got, "msg")));
            }
        }
        if why.is_none() {
            if let Some(exp) = st.get("emit").filter(|x| !x.is_null()) {
                let g: Vec<Value> = got["emit"].as_array().cloned().unwrap_or_default().iter()
                    .map(|x| Value::String(normalize(x.as_str().unwrap_or("")))).collect();
                if exp.as_array() != Some(&g) {
                    why = Some(format!("emit: expected {exp} got {}", Value::Array(g)));
                }
            }
        }
        if why.is_none() && class == "ok" {
            if let Some(exp) = st.get("val").filter(|x| !x.is_null()) {
                let g = got.get("val").and_then(|x| x.as_str()).map(normalize);
                if exp.as_str().map(|x| x.to_string()) != g {
                    why = Some(format!("val: expected {exp} got {:?}", g));
                }
            }
        }
        if why.is_none() && class == "ok" {
            if let Some(exp) = st.get("back").filter(|x| !x.is_null()) {
                if got.get("host") != Some(exp) {
                    why = Some(format!("host: expected {exp} got {}", got.get("host").cloned().unwrap_or(Value::Null)));
                }
            }
        }
        if why.is_none() {
            if let Some(exp) = st.get("calls").filter(|x| !x.is_null()) {
                if exp.as_array() != Some(&calls) {
                    why = Some(format!("calls: expected {exp} got {}", Value::Array(calls.clone())));
                }
            }
        }
        if why.is_none() {
            if let Some(exp) = st.get("acc").filter(|x| !x.is_null()) {
                let g: Vec<Value> = acc.iter().map(|x| Value::String(x.clone())).collect();
                if exp.as_array() != Some(&g) {
                    why = Some(format!("acc: expected {exp} got {}", Value::Array(g)));
                }
            }
        }
        got["acc"] = json!(acc);
        got["calls"] = Value::Array(calls);
        if let (Some(w), true) = (why, self.why.is_empty()) {
            self.why = w;
            self.bad = idx;
        }
        while self.gots.len() <= idx { self.gots.push(Value::Null); }
        self.gots[idx] = got;
    }

    fn ok_got() -> Value { json!({"class": "ok", "emit": [], "val": null, "msg": null}) }
    fn err_got(c: (String, String)) -> Value { json!({"class": c.0, "emit": [], "val": null, "msg": c.1}) }

    /// Run steps from *i on; inside a lending call (`until` = its guard) return at its exit step.
    fn run(&mut self, i: &mut usize, until: Option<i64>) -> Result<(), String> {
        while *i < self.steps.len() {
            let idx = *i;
            let st = self.steps[idx].clone();
            *i += 1;
            *self.tick.lock().unwrap() = Some((self.id.clone(), Instant::now(), idx));
            let h = s(&st, "h");
            let g = st.get("g").and_then(|x| x.as_i64()).unwrap_or(0);
            match h.as_str() {
                "" => {
                    let k = self.eng(&st)?;
                    let src = s(&st, "src").replace("@@", &self.uniq);
                    let got = run_step(self.engine(k), &self.log, &src);
                    let panicked = got.class == "panic";
                    self.settle(idx, &st, serde_json::to_value(&got).unwrap());
                    if panicked { return Err("panic".into()); }
                }
                "open" => {
                    let k = self.eng(&st)?;
                    let refs = st.get("refs").and_then(|x| x.as_array()).cloned().ok_or("open without refs")?;
                    let mut guard: Option<LifetimeGuard<'static>> = None;
                    let mut scopes = Vec::new();
                    for r in &refs {
                        let o = self.obj(&s(r, "obj"));
                        let cell: &'static mut Cell = unsafe { &mut *o };
                        cell.scope.fetch_add(1, Ordering::SeqCst);
                        scopes.push(cell.scope.clone());
                        let ro = s(r, "mode") == "ro";
                        guard = Some(match (guard.take(), ro) {
                            (None, false) => self.engine(k).with_mut_reference::<Cell, Cell>(cell),
                            (None, true) => self.engine(k).with_immutable_reference::<Cell, Cell>(cell),
                            (Some(gd), false) => gd.with_mut_reference::<Cell, Cell>(cell),
                            (Some(gd), true) => gd.with_immutable_reference::<Cell, Cell>(cell),
                        });
                    }
                    self.guards.insert(g, GuardRec { guard: guard.ok_or("open with no refs")?, eng: k, scopes });
                    self.settle(idx, &st, Self::ok_got());
                }
                "drop" => {
                    let rec = self.guards.remove(&g).ok_or("drop of unknown guard")?;
                    drop(rec.guard);
                    for sc in &rec.scopes { sc.fetch_sub(1, Ordering::SeqCst); }
                    self.settle(idx, &st, Self::ok_got());
                }
                "enter" => {
                    let rec = self.guards.remove(&g).ok_or("enter of unknown guard")?;
                    self.settle(idx, &st, Self::ok_got());
                    let me: *mut Interp<'c> = self;
                    let k = rec.eng;
                    let body = |engine: &mut Engine, args: Vec<SteelVal>| -> Result<(), String> {
                        let me = unsafe { &mut *me };
                        for (n, a) in args.into_iter().enumerate() {
                            engine.update_value(&format!("r{g}_{n}"), a).ok_or("lent reference global not registered")?;
                        }
                        let prev = me.engines[k];
                        me.engines[k] = engine as *mut Engine;
                        let r = me.run(i, Some(g));
                        me.engines[k] = prev;
                        r
                    };
                    let r = if s(&st, "api") == "consume" {
                        let mut body = Some(body);
                        rec.guard.consume(move |e, a| (body.take().expect("thunk called twice"))(e, a))
                    } else {
                        rec.guard.consume_once(body)
                    };
                    for sc in &rec.scopes { sc.fetch_sub(1, Ordering::SeqCst); }
                    r?;
                }
                "exit" => {
                    self.settle(idx, &st, Self::ok_got());
                    if until == Some(g) { return Ok(()); }
                    return Err(format!("exit of guard {g} outside its lending call"));
                }
                "rwr" => {
                    let k = self.eng(&st)?;
                    let o = self.obj(&s(&st, "obj"));
                    let cell: &'static mut Cell = unsafe { &mut *o };
                    cell.scope.fetch_add(1, Ordering::SeqCst);
                    let sc = cell.scope.clone();
                    let script = s(&st, "script").replace("@@", &self.uniq);
                    let bind = s(&st, "bind");
                    self.log.lock().unwrap().clear();
                    let e = self.engine(k);
                    let r = catch_unwind(AssertUnwindSafe(|| e.run_with_reference::<Cell, Cell>(cell, &bind, &script)));
                    sc.fetch_sub(1, Ordering::SeqCst);
                    let emit = self.log.lock().unwrap().clone();
                    let got = match r {
                        Ok(Ok(v)) => json!({"class": "ok", "emit": emit, "val": v.to_string(), "msg": null}),
                        Ok(Err(x)) => { let c = err_class(&x); json!({"class": c.0, "emit": emit, "val": null, "msg": c.1}) }
                        Err(_) => json!({"class": "panic", "emit": emit, "val": null, "msg": "panic"}),
                    };
                    let panicked = got["class"] == "panic";
                    self.settle(idx, &st, got);
                    if panicked { return Err("panic".into()); }
                }
                "call" => {
                    let k = self.eng(&st)?;
                    let n = st.get("kept").and_then(|x| x.as_u64()).unwrap_or(0) as usize;
                    let arg = KEPT.lock().unwrap().get(n).cloned().ok_or("no such kept value")?;
                    let f = s(&st, "fn").replace("@@", &self.uniq);
                    self.log.lock().unwrap().clear();
                    let e = self.engine(k);
                    let r = catch_unwind(AssertUnwindSafe(|| e.call_function_by_name_with_args(&f, vec![arg])));
                    let emit = self.log.lock().unwrap().clone();
                    let got = match r {
                        Ok(Ok(v)) => json!({"class": "ok", "emit": emit, "val": v.to_string(), "msg": null}),
                        Ok(Err(x)) => { let c = err_class(&x); json!({"class": c.0, "emit": emit, "val": null, "msg": c.1}) }
                        Err(_) => json!({"class": "panic", "emit": emit, "val": null, "msg": "panic"}),
                    };
                    let panicked = got["class"] == "panic";
                    self.settle(idx, &st, got);
                    if panicked { return Err("panic".into()); }
                }
                "await-parked" => {
                    // wait (at most 1.5 s) until a script thread is inside Cell::park
                    let t0 = Instant::now();
                    let mut pk = PARK.lock().unwrap();
                    while !pk.0 && t0.elapsed() < Duration::from_millis(1500) {
                        pk = PARK_CV.wait_timeout(pk, Duration::from_millis(20)).unwrap().0;
                    }
                    let v = if pk.0 { "parked" } else { "not-parked" };
                    drop(pk);
                    self.settle(idx, &st, json!({"class": "ok", "emit": [], "val": v, "msg": null}));
                }
                "release" => {
                    let mut pk = PARK.lock().unwrap();
                    pk.1 = true;
                    PARK_CV.notify_all();
                    drop(pk);
                    self.settle(idx, &st, Self::ok_got());
                }
                "poke" => {
                    // sensor self-test: the HOST touches an object it has not lent
                    let o = self.obj(&s(&st, "obj"));
                    let _ = unsafe { &*o }.get();
                    self.settle(idx, &st, Self::ok_got());
                }
                "extract" => {
                    let k = self.eng(&st)?;
                    let name = s(&st, "name").replace("@@", &self.uniq);
                    let ty = s(&st, "ty");
                    let e = self.engine(k);
                    let r = catch_unwind(AssertUnwindSafe(|| op_extract(e, &ty, &name)));
                    let got = match r {
                        Ok(Ok(Ok(v))) => json!({"class": "ok", "emit": [], "val": null, "msg": null, "host": v}),
                        Ok(Ok(Err(c))) => Self::err_got(c),
                        Ok(Err(m)) => return Err(m),
                        Err(_) => json!({"class": "panic", "emit": [], "val": null, "msg": "panic in extract"}),
                    };
                    self.settle(idx, &st, got);
                }
                "h2s" | "ext" | "into" => {
                    let k = self.eng(&st)?;
                    let ty = s(&st, "ty");
                    let host = st.get("host").cloned().unwrap_or(Value::Null);
                    let f = s(&st, "fn").replace("@@", &self.uniq);
                    let name = s(&st, "name").replace("@@", &self.uniq);
                    self.log.lock().unwrap().clear();
                    let log = self.log.clone();
                    let e = self.engine(k);
                    let r = catch_unwind(AssertUnwindSafe(|| -> Result<Value, String> {
                        if h == "ext" {
                            return Ok(match op_ext(e, &ty, &host, &name)? {
                                Ok(()) => Self::ok_got(),
                                Err(c) => Self::err_got(c),
                            });
                        }
                        let v = match op_into(&ty, &host)? {
                            Ok(v) => v,
                            Err(c) => return Ok(Self::err_got((format!("{}@into", c.0), c.1))),
                        };
                        if h == "into" {
                            e.register_value(&name, v);
                            return Ok(Self::ok_got());
                        }
                        let back = match e.call_function_by_name_with_args(&f, vec![v]) {
                            Ok(b) => b,
                            Err(x) => return Ok(Self::err_got(err_class(&x))),
                        };
                        let emit = log.lock().unwrap().clone();
                        Ok(match op_from(&ty, &back)? {
                            Ok(j) => json!({"class": "ok", "emit": emit, "val": null, "msg": null, "host": j}),
                            Err(c) => json!({"class": format!("{}@from", c.0), "emit": emit, "val": null, "msg": c.1}),
                        })
                    }));
                    let got = match r {
                        Ok(Ok(g)) => g,
                        Ok(Err(m)) => return Err(m),
                        Err(_) => json!({"class": "panic", "emit": [], "val": null, "msg": "panic in conversion"}),
                    };
                    self.settle(idx, &st, got);
                }
                other => return Err(format!("unknown host step {other}")),
            }
        }
        if until.is_some() { return Err("behaviour ended inside a lending call".into()); }
        Ok(())
    }
}

fn make_engine(log: &Log) -> *mut Engine {
    let mut e = new_engine(log);
    register_nursery(&mut e);
    register_id_fns(&mut e);
    register_shapes(&mut e);
    Box::into_raw(Box::new(e))
}

fn main() {
    std::panic::set_hook(Box::new(|_| {}));
    let args: Vec<String> = std::env::args().collect();
    if args.len() < 3 {
        eprintln!("usage: hostapi <cases.ndjson> <out.ndjson> [--timeout-ms N] [--skip K]");
        std::process::exit(2);
    }
    let cases_path = &args[1];
    let out_path = &args[2];
    let mut timeout_ms: u64 = 10_000;
    let mut skip = 0usize;
    let mut i = 3;
    while i < args.len() {
        match args[i].as_str() {
            "--timeout-ms" => { timeout_ms = args[i + 1].parse().unwrap(); i += 2; }
            "--skip" => { skip = args[i + 1].parse().unwrap(); i += 2; }
            _ => { i += 1; }
        }
    }
    let text = std::fs::read_to_string(cases_path).expect("cases file");
    let out = Arc::new(Mutex::new(
        std::fs::OpenOptions::new().create(true).append(true).open(out_path).expect("out file"),
    ));
    let current: Arc<Mutex<Option<(String, Instant, usize)>>> = Arc::new(Mutex::new(None));
    {
        let current = current.clone();
        let out = out.clone();
        std::thread::spawn(move || loop {
            std::thread::sleep(Duration::from_millis(50));
            let cur = current.lock().unwrap().clone();
            if let Some((id, t0, step)) = cur {
                if t0.elapsed() > Duration::from_millis(timeout_ms) {
                    let mut o = out.lock().unwrap();
                    let _ = writeln!(o, "{}", json!({"timeout": id, "step": step}));
                    let _ = o.flush();
                    std::process::exit(97);
                }
            }
        });
    }
    let log: Log = Arc::new(Mutex::new(Vec::new()));
    let mut engines = [make_engine(&log), make_engine(&log)];
    for (n, line) in text.lines().enumerate() {
        if n < skip || line.trim().is_empty() { continue; }
        let case: Value = match serde_json::from_str(line) {
            Ok(c) => c,
            Err(e) => { eprintln!("bad case line {n}: {e}"); std::process::exit(2); }
        };
        let id = s(&case, "id");
        let tag = s(&case, "tag");
        let steps: Vec<Value> = match case.get("steps").and_then(|x| x.as_array()) {
            Some(a) => a.clone(),
            None => { eprintln!("case line {n} has no steps"); std::process::exit(2); }
        };
        {
            let mut o = out.lock().unwrap();
            writeln!(o, "{}", json!({"start": id, "n": n})).unwrap();
            o.flush().unwrap();
        }
        *current.lock().unwrap() = Some((id.clone(), Instant::now(), 0));
        ACCESS.lock().unwrap().clear();
        CALLS.lock().unwrap().clear();
        KEPT.lock().unwrap().clear();
        CASE_GEN.fetch_add(1, Ordering::SeqCst);
        *PARK.lock().unwrap() = (false, false);
        // Every behaviour runs on its own thread: the nursery of lent references is a thread-local of
        // steel-core, so a fresh thread gives every behaviour an empty one (whatever an earlier
        // behaviour left behind).  A panic of the thread is an observation.
        struct Shared([*mut Engine; 2]);
        unsafe impl Send for Shared {}
        let shared = Shared(engines);
        let (log2, cur2, id2, steps_ref) = (log.clone(), current.clone(), id.clone(), &steps);
        let joined = std::thread::scope(|sc| {
            std::thread::Builder::new()
                .stack_size(256 << 20)
                .spawn_scoped(sc, move || {
                    let shared = shared;
                    let mut it = Interp {
                        engines: shared.0, objs: HashMap::new(), guards: HashMap::new(), steps: steps_ref, uniq: format!("{n}"),
                        log: log2, gots: Vec::new(), why: String::new(), bad: 0, tick: cur2, id: id2,
                    };
                    let mut pos = 0usize;
                    let r = catch_unwind(AssertUnwindSafe(|| it.run(&mut pos, None)))
                        .unwrap_or_else(|p| {
                            let m = p.downcast_ref::<String>().cloned()
                                .or_else(|| p.downcast_ref::<&str>().map(|x| x.to_string())).unwrap_or_default();
                            Err(format!("panic in a host step: {m}"))
                        });
                    // guards the behaviour left open are dropped in creation order
                    let mut left: Vec<i64> = it.guards.keys().cloned().collect();
                    left.sort();
                    for g in left {
                        if let Some(rec) = it.guards.remove(&g) {
                            let _ = catch_unwind(AssertUnwindSafe(|| drop(rec.guard)));
                            for sc in &rec.scopes { sc.fetch_sub(1, Ordering::SeqCst); }
                        }
                    }
                    (r, std::mem::take(&mut it.why), it.bad, std::mem::take(&mut it.gots), pos)
                })
                .expect("spawn")
                .join()
        });
        let (r, mut why, mut bad, gots, pos) = match joined {
            Ok(x) => x,
            Err(_) => (Err("panic".to_string()), "panic outside a step".to_string(), 0, Vec::new(), 0),
        };
        let mut poisoned = false;
        if let Err(m) = r {
            if m.starts_with("panic") { poisoned = true; }
            if why.is_empty() { why = format!("replayer: {m}"); bad = pos.saturating_sub(1); }
        }
        *current.lock().unwrap() = None;
        if poisoned {
            // a panic may leave an engine in an arbitrary state; replace both
            engines = [make_engine(&log), make_engine(&log)];
        }
        let v = json!({"id": id, "tag": tag, "pass": why.is_empty(), "why": why, "step": bad, "got": gots});
        let mut o = out.lock().unwrap();
        writeln!(o, "{}", v).unwrap();
        o.flush().unwrap();
    }
    let mut o = out.lock().unwrap();
    writeln!(o, "{}", json!({"done": true})).unwrap();
    o.flush().unwrap();
    std::process::exit(0);
}
