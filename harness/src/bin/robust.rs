//! C07 replayer: the generic engine-history replayer (see replay.rs; same case format, same
//! protocol towards lib/vlib.py) plus CRASH-SITE RECORDING.  The property under test is "no
//! input crashes the host", so the panics are the data: a panic hook writes, before unwinding
//! starts, a line `{"panicinfo": <case id>, "loc": "<file:line:col>", "msg": "..."}` to the
//! verdict file.  When the panic can be caught the location also goes into the verdict's `why`
//! (`class: expected noncrash got panic at <loc>: <msg>`); when it cannot (panic below JIT
//! frames => abort) the driver (checks/c07.py) joins the panicinfo line to the crash verdict
//! that vlib synthesises.  Known findings can therefore be matched by crash SITE, not only by
//! input text.
//!
//! usage: robust <cases.ndjson> <out.ndjson> [--timeout-ms N] [--skip K]
//!
//! Every case is announced with a `{"start": id}` line (flushed) before it runs, so that a
//! dead process (native stack overflow, abort from a panic below JIT frames) can be
//! attributed to the case that was running.  A watchdog turns a hang into exit code 97
//! after writing a `{"timeout": id}` line.  The driver restarts after the offending case.
use std::io::Write;
use std::sync::atomic::{AtomicU64, Ordering};
use std::sync::{Arc, Mutex};
use std::time::{Duration, Instant};
use verif_harness::*;

static EPOCH: AtomicU64 = AtomicU64::new(0);
static CUR: Mutex<Option<String>> = Mutex::new(None);
static LAST_PANIC: Mutex<Option<String>> = Mutex::new(None);
static OUT: Mutex<Option<std::fs::File>> = Mutex::new(None);

fn short(s: &str, n: usize) -> String {
    s.lines().next().unwrap_or("").chars().take(n).collect()
}

fn main() {
    std::panic::set_hook(Box::new(|info| {
        let loc = info
            .location()
            .map(|l| format!("{}:{}:{}", l.file().trim_start_matches("/repo/"), l.line(), l.column()))
            .unwrap_or_else(|| "?".into());
        let msg = if let Some(s) = info.payload().downcast_ref::<String>() {
            s.clone()
        } else if let Some(s) = info.payload().downcast_ref::<&str>() {
            s.to_string()
        } else {
            "panic".to_string()
        };
        let msg = short(&msg, 160);
        let id = CUR.try_lock().ok().and_then(|g| g.clone()).unwrap_or_default();
        if let Ok(mut lp) = LAST_PANIC.try_lock() {
            *lp = Some(format!("{loc}: {msg}"));
        }
        if let Ok(mut g) = OUT.try_lock() {
            if let Some(f) = g.as_mut() {
                let _ = writeln!(f, "{}", serde_json::json!({"panicinfo": id, "loc": loc, "msg": msg}));
                let _ = f.flush();
            }
        }
    }));
    let args: Vec<String> = std::env::args().collect();
    let cases_path = &args[1];
    let out_path = &args[2];
    let mut timeout_ms: u64 = 10_000;
    let mut skip = 0usize;
    let mut i = 3;
    while i < args.len() {
        match args[i].as_str() {
            "--timeout-ms" => { timeout_ms = args[i + 1].parse().unwrap(); i += 2; }
            "--skip" => { skip = args[i + 1].parse().unwrap(); i += 2; }
            _ => { i += 1; }
        }
    }
    let text = std::fs::read_to_string(cases_path).expect("cases file");
    let out = Arc::new(Mutex::new(
        std::fs::OpenOptions::new().create(true).append(true).open(out_path).expect("out file"),
    ));
    // second handle (append mode) for the panic hook
    *OUT.lock().unwrap() = std::fs::OpenOptions::new().create(true).append(true).open(out_path).ok();
    let current: Arc<Mutex<Option<(String, Instant)>>> = Arc::new(Mutex::new(None));
    {
        let current = current.clone();
        let out = out.clone();
        std::thread::spawn(move || loop {
            std::thread::sleep(Duration::from_millis(100));
            let cur = current.lock().unwrap().clone();
            if let Some((id, t0)) = cur {
                if t0.elapsed() > Duration::from_millis(timeout_ms) {
                    let mut o = out.lock().unwrap();
                    let _ = writeln!(o, "{}", serde_json::json!({"timeout": id}));
                    let _ = o.flush();
                    std::process::exit(97);
                }
            }
        });
    }
    let log: Log = Arc::new(Mutex::new(Vec::new()));
    let mut shared = new_engine(&log);
    for (n, line) in text.lines().enumerate() {
        if n < skip || line.trim().is_empty() { continue; }
        let case: Case = match serde_json::from_str(line) {
            Ok(c) => c,
            Err(e) => { eprintln!("bad case line {n}: {e}"); std::process::exit(2); }
        };
        {
            let mut o = out.lock().unwrap();
            writeln!(o, "{}", serde_json::json!({"start": case.id, "n": n})).unwrap();
            o.flush().unwrap();
        }
        EPOCH.fetch_add(1, Ordering::SeqCst);
        *current.lock().unwrap() = Some((case.id.clone(), Instant::now()));
        *CUR.lock().unwrap() = Some(case.id.clone());
        let case_t0 = Instant::now();
        let uniq = format!("{}", n);
        let mut fresh_engine;
        let e = if case.fresh { fresh_engine = new_engine(&log); &mut fresh_engine } else { &mut shared };
        let mut gots = Vec::new();
        let mut why = String::new();
        let mut bad_step = 0usize;
        let mut poisoned = false;
        let mut unplanned = false;
        let mut host = HostState { uniq: uniq.clone(), ..Default::default() };
        for (si, st) in case.steps.iter().enumerate() {
            let src = st.src.replace("@@", &uniq);
            *current.lock().unwrap() = Some((case.id.clone(), Instant::now()));
            let g0 = gen_of(e);
            let got = match &st.op {
                Some(op) => run_op(e, &log, &mut host, op),
                None => run_step(e, &log, &src),
            };
            if gen_of(e) != g0 && st.op.as_deref() != Some("force_recycle") { unplanned = true; }
            if got.class == "panic" { poisoned = true; }
            if why.is_empty() {
                if let Some(w) = judge(st, &got) {
                    why = w;
                    bad_step = si;
                    if got.class == "panic" {
                        let site = LAST_PANIC.lock().unwrap().take().unwrap_or_else(|| "?".into());
                        why = format!("{why} at {site}");
                    }
                }
            }
            gots.push(got);
            if poisoned { break; }
        }
        *current.lock().unwrap() = None;
        if poisoned && !case.fresh {
            // a panic may leave the shared engine in an arbitrary state; replace it
            shared = new_engine(&log);
        }
        // "|unplanned-recycle": the engine's global-slot recycler ran during a step that did not ask
        // for it (policy event caused by the accumulated history of a shared engine)
        let vtag = if unplanned { format!("{}|unplanned-recycle", case.tag) } else { case.tag.clone() };
        let v = Verdict { id: case.id.clone(), tag: vtag, pass: why.is_empty(), why, step: bad_step, got: gots };
        let mut o = out.lock().unwrap();
        let ms = case_t0.elapsed().as_millis() as u64;
        if ms >= 500 {
            // budget tuning aid: cases that take long (ignored by the driver's verdict parser)
            writeln!(o, "{}", serde_json::json!({"elapsed": v.id, "ms": ms})).unwrap();
        }
        writeln!(o, "{}", serde_json::to_string(&v).unwrap()).unwrap();
        o.flush().unwrap();
    }
    let mut o = out.lock().unwrap();
    writeln!(o, "{}", serde_json::json!({"done": true})).unwrap();
    o.flush().unwrap();
    std::process::exit(0);
}
